import BpModel.Model.Lex
import BpModel.Proofs.Lexer
/-!
The lexer always terminates: every token consumes at least one character, so one unit of fuel per
character is never exhausted.
-/
namespace Bp.Lex

theorem span_length (p : Char → Bool) : ∀ cs, (span p cs).2.length ≤ cs.length
  | [] => by simp [span]
  | c :: cs => by
    unfold span
    by_cases h : p c = true
    · simp only [h, if_true]; have := span_length p cs; simp; omega
    · simp [h]

theorem span_head (p : Char → Bool) (c : Char) (cs : List Char) (h : p c = true) :
    (span p (c :: cs)).2.length ≤ cs.length := by
  unfold span; simp only [h, if_true]; exact span_length p cs

theorem dropPrefix_length : ∀ (p cs r : List Char), dropPrefix p cs = some r → r.length + p.length = cs.length
  | [], cs, r, h => by simp [dropPrefix] at h; subst h; simp
  | _ :: _, [], r, h => by simp [dropPrefix] at h
  | p :: ps, c :: cs, r, h => by
    unfold dropPrefix at h
    by_cases e : p = c
    · simp only [e, if_true] at h; have := dropPrefix_length ps cs r h; simp; omega
    · simp [e] at h

theorem wordRule_shorter (pw : Bool) (w : String) (cs r : List Char) (hw : 0 < w.toList.length)
    (h : wordRule pw w cs = some r) : r.length < cs.length := by
  unfold wordRule at h
  by_cases hp : pw = true
  · simp [hp] at h
  · simp only [hp, Bool.false_eq_true, if_false] at h
    cases hd : dropPrefix w.toList cs with
    | none => simp [hd] at h
    | some rest =>
      simp only [hd] at h
      have := dropPrefix_length _ _ _ hd
      by_cases hb : boundaryAfter rest = true
      · simp only [hb, if_true, Option.some.injEq] at h; subst h; omega
      · simp [hb] at h

theorem widthRule_shorter (pw : Bool) (w : String) (cs r : List Char) (n : Nat)
    (h : widthRule pw w cs = some (n, r)) : r.length < cs.length := by
  unfold widthRule at h
  by_cases hp : pw = true
  · simp [hp] at h
  · simp only [hp, Bool.false_eq_true, if_false] at h
    cases hd : dropPrefix w.toList cs with
    | none => simp [hd] at h
    | some rest =>
      simp only [hd] at h
      have h1 := dropPrefix_length _ _ _ hd
      -- at least one digit is consumed
      cases rest with
      | nil => simp [span] at h
      | cons d ds =>
        by_cases hdg : isDigit d = true
        · have h2 := span_head isDigit d ds hdg
          by_cases he : (span isDigit (d :: ds)).1.isEmpty = true
          · simp [he] at h
          · simp only [he, Bool.false_eq_true, if_false] at h
            by_cases hb : boundaryAfter (span isDigit (d :: ds)).2 = true
            · simp only [hb, if_true, Option.some.injEq, Prod.mk.injEq] at h
              obtain ⟨_, rfl⟩ := h
              simp at h1; omega
            · simp [hb] at h
        · have : (span isDigit (d :: ds)).1 = [] := by unfold span; simp [hdg]
          simp [this] at h

theorem matchBody_length (cs : List Char) : ∀ b r, Lexer.matchBody cs = some (b, r) → r.length < cs.length := by
  fun_induction Lexer.matchBody cs <;> intro b r h
  all_goals (try simp_all)
  all_goals (try omega)
  all_goals (obtain ⟨_, rfl⟩ := h; omega)

theorem lexString_length (cs : List Char) (res : Except Lexer.EscErr (List Char)) (r : List Char)
    (h : Lexer.lexString cs = some (res, r)) : r.length < cs.length := by
  unfold Lexer.lexString at h
  cases hm : Lexer.matchBody cs with
  | none => simp [hm] at h
  | some br =>
    obtain ⟨b, r'⟩ := br
    simp only [hm, Option.some.injEq, Prod.mk.injEq] at h
    obtain ⟨_, rfl⟩ := h
    exact matchBody_length cs b r' hm

theorem next_shorter (pw : Bool) (line : Nat) (cs : List Char) (k : Kind) (rest : List Char)
    (h : next pw line cs = .ok (k, rest)) : rest.length < cs.length := by
  unfold next at h
  cases cs with
  | nil => simp at h
  | cons c tl =>
    simp only at h
    have wr : ∀ (w : String) (r : List Char), 0 < w.toList.length → wordRule pw w (c :: tl) = some r → r.length < (c :: tl).length :=
      fun w r hw hr => wordRule_shorter pw w (c :: tl) r hw hr
    have wd : ∀ (w : String) (n : Nat) (r : List Char), widthRule pw w (c :: tl) = some (n, r) → r.length < (c :: tl).length :=
      fun w n r hr => widthRule_shorter pw w (c :: tl) r n hr
    split at h
    · simp at h; obtain ⟨_, rfl⟩ := h; simp
    split at h
    · rename_i hc
      simp at h; obtain ⟨_, rfl⟩ := h
      have hne : (fun x => !decide (x = '\n')) c = true := by simp_all
      have := span_head (fun x => !decide (x = '\n')) c tl hne
      simp only [List.length_cons]; omega
    split at h
    · rename_i r hr; simp at h; obtain ⟨_, rfl⟩ := h; exact wr _ _ (by decide) hr
    split at h
    · rename_i n r hr; simp at h; obtain ⟨_, rfl⟩ := h; exact wd _ _ _ hr
    split at h
    · rename_i n r hr; simp at h; obtain ⟨_, rfl⟩ := h; exact wd _ _ _ hr
    split at h
    · rename_i r hr; simp at h; obtain ⟨_, rfl⟩ := h; exact wr _ _ (by decide) hr
    split at h
    · simp at h; obtain ⟨_, rfl⟩ := h
      have h1 := span_length isHex tl.tail
      have h2 : tl.tail.length ≤ tl.length := by simp
      simp; omega
    split at h
    · rename_i hd
      simp at h; obtain ⟨_, rfl⟩ := h
      have := span_head isDigit c tl hd
      simp; omega
    split at h
    · rename_i r hr; simp at h; obtain ⟨_, rfl⟩ := h; exact wr _ _ (by decide) hr
    split at h
    · rename_i r hr; simp at h; obtain ⟨_, rfl⟩ := h; exact wr _ _ (by decide) hr
    split at h
    · rename_i r hr; simp at h; obtain ⟨_, rfl⟩ := h; exact wr _ _ (by decide) hr
    split at h
    · rename_i r hr; simp at h; obtain ⟨_, rfl⟩ := h; exact wr _ _ (by decide) hr
    split at h
    · rename_i hi
      simp at h; obtain ⟨_, rfl⟩ := h
      have hic : isIdChar c = true := by simp [isIdChar, hi]
      have := span_head isIdChar c tl hic
      simp; omega
    split at h
    · split at h
      · simp at h
      · rename_i v r hl
        simp at h; obtain ⟨_, rfl⟩ := h
        have := lexString_length tl _ _ hl
        simp; omega
      · simp at h
    split at h
    · simp at h; obtain ⟨_, rfl⟩ := h; simp
    split at h
    · simp at h; obtain ⟨_, rfl⟩ := h; simp
    split at h
    · simp at h; obtain ⟨_, rfl⟩ := h; simp
    split at h
    · simp at h; obtain ⟨_, rfl⟩ := h; simp
    split at h
    · simp at h; obtain ⟨_, rfl⟩ := h; simp
    · simp at h

theorem next_err (pw : Bool) (line : Nat) (cs : List Char) (e : LexErr) (h : next pw line cs = .error e) :
    e ≠ .outOfFuel := by
  unfold next at h
  cases cs with
  | nil => simp at h; subst h; simp
  | cons c tl =>
    simp only at h
    split at h
    · simp at h
    split at h
    · simp at h
    split at h
    · simp at h
    split at h
    · simp at h
    split at h
    · simp at h
    split at h
    · simp at h
    split at h
    · simp at h
    split at h
    · simp at h
    split at h
    · simp at h
    split at h
    · simp at h
    split at h
    · simp at h
    split at h
    · simp at h
    split at h
    · simp at h
    split at h
    · split at h
      · simp at h; subst h; simp
      · simp at h
      · simp at h; subst h; simp
    split at h
    · simp at h
    split at h
    · simp at h
    split at h
    · simp at h
    split at h
    · simp at h
    split at h
    · simp at h
    · simp at h; subst h; simp

/-- **the lexer terminates**: with one unit of fuel per character the answer is never "out of fuel" -/
theorem lexAll_fuel : ∀ (f : Nat) (pw : Bool) (line : Nat) (cs : List Char), cs.length ≤ f →
    (lexAll f pw line cs).2 ≠ some .outOfFuel
  | _, _, _, [], _ => by simp [lexAll]
  | 0, _, _, _ :: _, h => by simp at h
  | f+1, pw, line, c :: cs, h => by
    have hcs : cs.length ≤ f := by simpa using h
    unfold lexAll
    by_cases hi : isIgnored c = true
    · simp only [hi, if_true]; exact lexAll_fuel f false line cs hcs
    · simp only [hi, Bool.false_eq_true, if_false]
      cases hn : next pw line (c :: cs) with
      | error e =>
        simp only
        have := next_err pw line (c :: cs) e hn
        intro he; simp at he; exact this he
      | ok kr =>
        obtain ⟨k, rest⟩ := kr
        simp only
        cases hw : widthOk k with
        | some sn => obtain ⟨sg, n⟩ := sn; simp
        | none =>
          simp only
          have hlt := next_shorter pw line (c :: cs) k rest hn
          exact lexAll_fuel f _ _ rest (by simp at hlt; omega)

/-- line numbers: a token is on line `l` where `l - 1` is the number of NEWLINE tokens before it -/
def LinesOk : Nat → List Token → Prop
  | _, [] => True
  | l, t :: ts => t.line = l ∧ LinesOk (if t.kind = .newline then l + 1 else l) ts

theorem lexAll_lines : ∀ (f : Nat) (pw : Bool) (line : Nat) (cs : List Char), LinesOk line (lexAll f pw line cs).1
  | _, _, _, [] => by simp [lexAll, LinesOk]
  | 0, _, _, _ :: _ => by simp [lexAll, LinesOk]
  | f+1, pw, line, c :: cs => by
    unfold lexAll
    by_cases hi : isIgnored c = true
    · simp only [hi, if_true]; exact lexAll_lines f false line cs
    · simp only [hi, Bool.false_eq_true, if_false]
      cases hn : next pw line (c :: cs) with
      | error e => simp [LinesOk]
      | ok kr =>
        obtain ⟨k, rest⟩ := kr
        simp only
        cases hw : widthOk k with
        | some sn => obtain ⟨sg, n⟩ := sn; simp [LinesOk]
        | none =>
          simp only [LinesOk, true_and]
          exact lexAll_lines f _ _ rest

theorem lex_total (text : List Char) : (lex text).2 ≠ some .outOfFuel :=
  lexAll_fuel text.length false 1 text (Nat.le_refl _)

end Bp.Lex

namespace Bp.Lex

/-! ### line numbers count the line-feed characters -/
theorem span_split (p : Char → Bool) : ∀ cs, (span p cs).1 ++ (span p cs).2 = cs ∧ ∀ c ∈ (span p cs).1, p c = true
  | [] => by simp [span]
  | c :: cs => by
    have ih := span_split p cs
    unfold span
    by_cases h : p c = true
    · simp only [h, if_true]
      refine ⟨by simp [ih.1], ?_⟩
      intro x hx
      rcases List.mem_cons.mp hx with rfl | hx
      · exact h
      · exact ih.2 x hx
    · simp [h]

theorem dropPrefix_split : ∀ (p cs r : List Char), dropPrefix p cs = some r → cs = p ++ r
  | [], cs, r, h => by simp [dropPrefix] at h; subst h; rfl
  | _ :: _, [], r, h => by simp [dropPrefix] at h
  | p :: ps, c :: cs, r, h => by
    unfold dropPrefix at h
    by_cases e : p = c
    · simp only [e, if_true] at h; rw [dropPrefix_split ps cs r h, e]; rfl
    · simp [e] at h

theorem matchBody_split (cs : List Char) : ∀ b r, Lexer.matchBody cs = some (b, r) → cs = b ++ '"' :: r ∧ '\n' ∉ b := by
  fun_induction Lexer.matchBody cs <;> intro b r h
  case case1 => simp at h
  case case2 => simp at h; obtain ⟨rfl, rfl⟩ := h; simp
  case case3 => simp at h
  case case4 c rest hnl b' r' hm ih =>
    simp [hm] at h; obtain ⟨rfl, rfl⟩ := h
    obtain ⟨e, hn⟩ := ih b' r' hm
    refine ⟨by rw [e]; simp, ?_⟩
    simp only [List.mem_cons, not_or]
    exact ⟨by decide, fun e' => hnl e'.symm, hn⟩
  case case5 => simp_all
  case case6 => simp at h
  case case7 => simp_all
  case case8 c rest hq hb hnl b' r' hm ih =>
    simp [hm] at h; obtain ⟨rfl, rfl⟩ := h
    obtain ⟨e, hn⟩ := ih b' r' hm
    refine ⟨by rw [e]; simp, ?_⟩
    simp only [List.mem_cons, not_or]
    exact ⟨fun e' => hnl e'.symm, hn⟩
  case case9 => simp_all

end Bp.Lex

namespace Bp.Lex

/-- what a token consumes: a line feed exactly for NEWLINE, no line feed otherwise -/
def Consumed (k : Kind) (pre : List Char) : Prop := if k = .newline then pre = ['\n'] else '\n' ∉ pre

theorem consumed_of_ne {k : Kind} {pre : List Char} (hk : k ≠ .newline) (h : '\n' ∉ pre) : Consumed k pre := by
  simp [Consumed, hk, h]

theorem wordRule_split (pw : Bool) (w : String) (cs r : List Char) (h : wordRule pw w cs = some r) : cs = w.toList ++ r := by
  unfold wordRule at h
  by_cases hp : pw = true
  · simp [hp] at h
  · simp only [hp, Bool.false_eq_true, if_false] at h
    cases hd : dropPrefix w.toList cs with
    | none => simp [hd] at h
    | some rest =>
      simp only [hd] at h
      by_cases hb : boundaryAfter rest = true
      · simp only [hb, if_true, Option.some.injEq] at h; subst h; exact dropPrefix_split _ _ _ hd
      · simp [hb] at h

theorem widthRule_split (pw : Bool) (w : String) (cs r : List Char) (n : Nat) (h : widthRule pw w cs = some (n, r)) :
    ∃ ds, cs = w.toList ++ ds ++ r ∧ ∀ c ∈ ds, isDigit c = true := by
  unfold widthRule at h
  by_cases hp : pw = true
  · simp [hp] at h
  · simp only [hp, Bool.false_eq_true, if_false] at h
    cases hd : dropPrefix w.toList cs with
    | none => simp [hd] at h
    | some rest =>
      simp only [hd] at h
      have hs := span_split isDigit rest
      by_cases he : (span isDigit rest).1.isEmpty = true
      · simp [he] at h
      · simp only [he, Bool.false_eq_true, if_false] at h
        by_cases hb : boundaryAfter (span isDigit rest).2 = true
        · simp only [hb, if_true, Option.some.injEq, Prod.mk.injEq] at h
          obtain ⟨_, rfl⟩ := h
          refine ⟨(span isDigit rest).1, ?_, hs.2⟩
          rw [dropPrefix_split _ _ _ hd, List.append_assoc, hs.1]
        · simp [hb] at h

theorem digit_ne_nl (c : Char) (h : isDigit c = true) : c ≠ '\n' := by
  intro e; subst e; simp [isDigit] at h

theorem next_split (pw : Bool) (line : Nat) (cs : List Char) (k : Kind) (rest : List Char)
    (h : next pw line cs = .ok (k, rest)) : ∃ pre, cs = pre ++ rest ∧ Consumed k pre := by
  unfold next at h
  cases cs with
  | nil => simp at h
  | cons c tl =>
    simp only at h
    have word : ∀ (w : String) (r : List Char) (kk : Kind), kk ≠ .newline → '\n' ∉ w.toList → wordRule pw w (c :: tl) = some r →
        ∃ pre, c :: tl = pre ++ r ∧ Consumed kk pre := by
      intro w r kk hk hw hr
      exact ⟨w.toList, wordRule_split pw w _ r hr, by simp [Consumed, hk, hw]⟩
    have width : ∀ (w : String) (n : Nat) (r : List Char) (kk : Kind), kk ≠ .newline → '\n' ∉ w.toList → widthRule pw w (c :: tl) = some (n, r) →
        ∃ pre, c :: tl = pre ++ r ∧ Consumed kk pre := by
      intro w n r kk hk hw hr
      obtain ⟨ds, e, hd⟩ := widthRule_split pw w _ r n hr
      refine ⟨w.toList ++ ds, e, ?_⟩
      simp only [Consumed, hk, if_false, List.mem_append, not_or]
      exact ⟨hw, fun hm => digit_ne_nl _ (hd _ hm) rfl⟩
    split at h
    · rename_i hc
      simp at h; obtain ⟨rfl, rfl⟩ := h
      exact ⟨['\n'], by simp [hc], by simp [Consumed]⟩
    rename_i hnl
    have one : ∀ kk : Kind, kk ≠ .newline → ∃ pre, c :: tl = pre ++ tl ∧ Consumed kk pre :=
      fun kk hk => ⟨[c], rfl, by simp [Consumed, hk]; exact fun e => hnl e.symm⟩
    split at h
    · simp at h; obtain ⟨rfl, rfl⟩ := h
      have hs := span_split (fun x => !decide (x = '\n')) (c :: tl)
      refine ⟨_, hs.1.symm, ?_⟩
      simp only [Consumed, reduceCtorEq, if_false]
      intro hm
      have := hs.2 _ hm
      simp at this
    split at h
    · rename_i r hr; simp at h; obtain ⟨rfl, rfl⟩ := h; exact word _ _ _ (by simp) (by decide) hr
    split at h
    · rename_i n r hr; simp at h; obtain ⟨rfl, rfl⟩ := h; exact width _ _ _ _ (by simp) (by decide) hr
    split at h
    · rename_i n r hr; simp at h; obtain ⟨rfl, rfl⟩ := h; exact width _ _ _ _ (by simp) (by decide) hr
    split at h
    · rename_i r hr; simp at h; obtain ⟨rfl, rfl⟩ := h; exact word _ _ _ (by simp) (by decide) hr
    split at h
    · rename_i hx
      simp at h; obtain ⟨rfl, rfl⟩ := h
      simp only [Bool.and_eq_true, decide_eq_true_eq] at hx
      obtain ⟨⟨hc0, hx1⟩, _⟩ := hx
      have hs := span_split isHex tl.tail
      cases tl with
      | nil => simp at hx1
      | cons x tl' =>
        simp at hx1; subst hx1; subst hc0
        have hs' : (span isHex tl').1 ++ (span isHex tl').2 = tl' := by simpa using hs.1
        refine ⟨'0' :: 'x' :: (span isHex tl').1, by simp [hs'], ?_⟩
        simp only [Consumed, reduceCtorEq, if_false, List.mem_cons, not_or]
        refine ⟨by decide, by decide, ?_⟩
        intro hm
        have := hs.2 _ (by simpa using hm)
        simp [isHex, isDigit] at this
    split at h
    · rename_i hd
      simp at h; obtain ⟨rfl, rfl⟩ := h
      have hs := span_split isDigit (c :: tl)
      refine ⟨_, hs.1.symm, ?_⟩
      simp only [Consumed, reduceCtorEq, if_false]
      exact fun hm => digit_ne_nl _ (hs.2 _ hm) rfl
    split at h
    · rename_i r hr; simp at h; obtain ⟨rfl, rfl⟩ := h; exact word _ _ _ (by simp) (by decide) hr
    split at h
    · rename_i r hr; simp at h; obtain ⟨rfl, rfl⟩ := h; exact word _ _ _ (by simp) (by decide) hr
    split at h
    · rename_i r hr; simp at h; obtain ⟨rfl, rfl⟩ := h; exact word _ _ _ (by simp) (by decide) hr
    split at h
    · rename_i r hr; simp at h; obtain ⟨rfl, rfl⟩ := h; exact word _ _ _ (by simp) (by decide) hr
    split at h
    · rename_i hi
      simp at h; obtain ⟨rfl, rfl⟩ := h
      have hs := span_split isIdChar (c :: tl)
      refine ⟨_, hs.1.symm, consumed_of_ne ?_ ?_⟩
      · split <;> simp
      · intro hm
        have := hs.2 _ hm
        simp [isIdChar, isIdStart, isDigit] at this
    split at h
    · rename_i hq
      split at h
      · simp at h
      · rename_i v r hl
        simp at h; obtain ⟨rfl, rfl⟩ := h
        unfold Lexer.lexString at hl
        cases hm : Lexer.matchBody tl with
        | none => simp [hm] at hl
        | some br =>
          obtain ⟨b, r'⟩ := br
          simp only [hm, Option.some.injEq, Prod.mk.injEq] at hl
          obtain ⟨_, rfl⟩ := hl
          obtain ⟨e, hn⟩ := matchBody_split tl b r' hm
          refine ⟨c :: b ++ ['"'], by rw [e]; simp, ?_⟩
          simp only [Consumed, reduceCtorEq, if_false, List.mem_append, List.mem_cons, List.mem_singleton, not_or, List.not_mem_nil, or_false]
          exact ⟨⟨fun e' => hnl e'.symm, hn⟩, by decide⟩
      · simp at h
    split at h
    · simp at h; obtain ⟨rfl, rfl⟩ := h; exact one _ (by simp)
    split at h
    · simp at h; obtain ⟨rfl, rfl⟩ := h; exact one _ (by simp)
    split at h
    · simp at h; obtain ⟨rfl, rfl⟩ := h; exact one _ (by simp)
    split at h
    · simp at h; obtain ⟨rfl, rfl⟩ := h; exact one _ (by simp)
    split at h
    · simp at h; obtain ⟨rfl, rfl⟩ := h; exact one _ (by simp)
    · simp at h

end Bp.Lex

namespace Bp.Lex

def nlToks (ts : List Token) : Nat := (ts.filter (fun t => decide (t.kind = .newline))).length

theorem consumed_count {k : Kind} {pre : List Char} (h : Consumed k pre) :
    pre.count '\n' = if k = .newline then 1 else 0 := by
  unfold Consumed at h
  by_cases hk : k = .newline
  · simp only [hk, if_true] at h ⊢; subst h; rfl
  · simp only [hk, if_false] at h ⊢
    exact List.count_eq_zero.mpr h

/-- **every line feed is a NEWLINE token and vice versa**: in a text that lexes completely, the number of
NEWLINE tokens is the number of line-feed characters (comments stop before theirs, strings contain none) -/
theorem lexAll_count : ∀ (f : Nat) (pw : Bool) (line : Nat) (cs : List Char), cs.length ≤ f →
    (lexAll f pw line cs).2 = none → nlToks (lexAll f pw line cs).1 = cs.count '\n'
  | _, _, _, [], _, _ => by simp [lexAll, nlToks]
  | 0, _, _, _ :: _, h, _ => by simp at h
  | f+1, pw, line, c :: cs, h, he => by
    have hcs : cs.length ≤ f := by simpa using h
    unfold lexAll at he ⊢
    by_cases hi : isIgnored c = true
    · simp only [hi, if_true] at he ⊢
      have hc : c ≠ '\n' := by
        intro e; subst e; simp [isIgnored] at hi
      rw [lexAll_count f false line cs hcs he]
      simp [List.count_cons, hc]
    · simp only [hi, Bool.false_eq_true, if_false] at he ⊢
      cases hn : next pw line (c :: cs) with
      | error e => simp [hn] at he
      | ok kr =>
        obtain ⟨k, rest⟩ := kr
        simp only [hn] at he ⊢
        cases hw : widthOk k with
        | some sn => obtain ⟨sg, n⟩ := sn; simp [hw] at he
        | none =>
          simp only [hw] at he ⊢
          obtain ⟨pre, hsplit, hcons⟩ := next_split pw line (c :: cs) k rest hn
          have hlt := next_shorter pw line (c :: cs) k rest hn
          have ih := lexAll_count f _ _ rest (by simp at hlt; omega) he
          have hcount : (c :: cs).count '\n' = pre.count '\n' + rest.count '\n' := by rw [hsplit, List.count_append]
          rw [hcount, consumed_count hcons]
          simp only [nlToks, List.filter_cons] at ih ⊢
          by_cases hk : k = .newline
          · simp [hk] at ih ⊢; omega
          · simp [hk] at ih ⊢; omega

end Bp.Lex
