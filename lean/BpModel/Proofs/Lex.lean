import BpModel.Model.Lex
import BpModel.Proofs.Lexer
/-!
The lexer always terminates: every token consumes at least one character, so one unit of fuel per
character is never exhausted.
-/
namespace Bp.Lex

theorem span_length (p : Char → Bool) : ∀ cs, (span p cs).2.length ≤ cs.length
  | [] => by simp [span]
  | c :: cs => by
    unfold span
    by_cases h : p c = true
    · simp only [h, if_true]; have := span_length p cs; simp; omega
    · simp [h]

theorem span_head (p : Char → Bool) (c : Char) (cs : List Char) (h : p c = true) :
    (span p (c :: cs)).2.length ≤ cs.length := by
  unfold span; simp only [h, if_true]; exact span_length p cs

theorem dropPrefix_length : ∀ (p cs r : List Char), dropPrefix p cs = some r → r.length + p.length = cs.length
  | [], cs, r, h => by simp [dropPrefix] at h; subst h; simp
  | _ :: _, [], r, h => by simp [dropPrefix] at h
  | p :: ps, c :: cs, r, h => by
    unfold dropPrefix at h
    by_cases e : p = c
    · simp only [e, if_true] at h; have := dropPrefix_length ps cs r h; simp; omega
    · simp [e] at h

theorem wordRule_shorter (pw : Bool) (w : String) (cs r : List Char) (hw : 0 < w.toList.length)
    (h : wordRule pw w cs = some r) : r.length < cs.length := by
  unfold wordRule at h
  by_cases hp : pw = true
  · simp [hp] at h
  · simp only [hp, Bool.false_eq_true, if_false] at h
    cases hd : dropPrefix w.toList cs with
    | none => simp [hd] at h
    | some rest =>
      simp only [hd] at h
      have := dropPrefix_length _ _ _ hd
      by_cases hb : boundaryAfter rest = true
      · simp only [hb, if_true, Option.some.injEq] at h; subst h; omega
      · simp [hb] at h

theorem widthRule_shorter (pw : Bool) (w : String) (cs r : List Char) (n : Nat)
    (h : widthRule pw w cs = some (n, r)) : r.length < cs.length := by
  unfold widthRule at h
  by_cases hp : pw = true
  · simp [hp] at h
  · simp only [hp, Bool.false_eq_true, if_false] at h
    cases hd : dropPrefix w.toList cs with
    | none => simp [hd] at h
    | some rest =>
      simp only [hd] at h
      have h1 := dropPrefix_length _ _ _ hd
      -- at least one digit is consumed
      cases rest with
      | nil => simp [span] at h
      | cons d ds =>
        by_cases hdg : isDigit d = true
        · have h2 := span_head isDigit d ds hdg
          by_cases he : (span isDigit (d :: ds)).1.isEmpty = true
          · simp [he] at h
          · simp only [he, Bool.false_eq_true, if_false] at h
            by_cases hb : boundaryAfter (span isDigit (d :: ds)).2 = true
            · simp only [hb, if_true, Option.some.injEq, Prod.mk.injEq] at h
              obtain ⟨_, rfl⟩ := h
              simp at h1; omega
            · simp [hb] at h
        · have : (span isDigit (d :: ds)).1 = [] := by unfold span; simp [hdg]
          simp [this] at h

theorem matchBody_length (cs : List Char) : ∀ b r, Lexer.matchBody cs = some (b, r) → r.length < cs.length := by
  fun_induction Lexer.matchBody cs <;> intro b r h
  all_goals (try simp_all)
  all_goals (try omega)
  all_goals (obtain ⟨_, rfl⟩ := h; omega)

theorem lexString_length (cs : List Char) (res : Except Lexer.EscErr (List Char)) (r : List Char)
    (h : Lexer.lexString cs = some (res, r)) : r.length < cs.length := by
  unfold Lexer.lexString at h
  cases hm : Lexer.matchBody cs with
  | none => simp [hm] at h
  | some br =>
    obtain ⟨b, r'⟩ := br
    simp only [hm, Option.some.injEq, Prod.mk.injEq] at h
    obtain ⟨_, rfl⟩ := h
    exact matchBody_length cs b r' hm

theorem next_shorter (pw : Bool) (line : Nat) (cs : List Char) (k : Kind) (rest : List Char)
    (h : next pw line cs = .ok (k, rest)) : rest.length < cs.length := by
  unfold next at h
  cases cs with
  | nil => simp at h
  | cons c tl =>
    simp only at h
    have wr : ∀ (w : String) (r : List Char), 0 < w.toList.length → wordRule pw w (c :: tl) = some r → r.length < (c :: tl).length :=
      fun w r hw hr => wordRule_shorter pw w (c :: tl) r hw hr
    have wd : ∀ (w : String) (n : Nat) (r : List Char), widthRule pw w (c :: tl) = some (n, r) → r.length < (c :: tl).length :=
      fun w n r hr => widthRule_shorter pw w (c :: tl) r n hr
    split at h
    · simp at h; obtain ⟨_, rfl⟩ := h; simp
    split at h
    · rename_i hc
      simp at h; obtain ⟨_, rfl⟩ := h
      have hne : (fun x => !decide (x = '\n')) c = true := by simp_all
      have := span_head (fun x => !decide (x = '\n')) c tl hne
      simp only [List.length_cons]; omega
    split at h
    · rename_i r hr; simp at h; obtain ⟨_, rfl⟩ := h; exact wr _ _ (by decide) hr
    split at h
    · rename_i n r hr; simp at h; obtain ⟨_, rfl⟩ := h; exact wd _ _ _ hr
    split at h
    · rename_i n r hr; simp at h; obtain ⟨_, rfl⟩ := h; exact wd _ _ _ hr
    split at h
    · rename_i r hr; simp at h; obtain ⟨_, rfl⟩ := h; exact wr _ _ (by decide) hr
    split at h
    · simp at h; obtain ⟨_, rfl⟩ := h
      have h1 := span_length isHex tl.tail
      have h2 : tl.tail.length ≤ tl.length := by simp
      simp; omega
    split at h
    · rename_i hd
      simp at h; obtain ⟨_, rfl⟩ := h
      have := span_head isDigit c tl hd
      simp; omega
    split at h
    · rename_i r hr; simp at h; obtain ⟨_, rfl⟩ := h; exact wr _ _ (by decide) hr
    split at h
    · rename_i r hr; simp at h; obtain ⟨_, rfl⟩ := h; exact wr _ _ (by decide) hr
    split at h
    · rename_i r hr; simp at h; obtain ⟨_, rfl⟩ := h; exact wr _ _ (by decide) hr
    split at h
    · rename_i r hr; simp at h; obtain ⟨_, rfl⟩ := h; exact wr _ _ (by decide) hr
    split at h
    · rename_i hi
      simp at h; obtain ⟨_, rfl⟩ := h
      have hic : isIdChar c = true := by simp [isIdChar, hi]
      have := span_head isIdChar c tl hic
      simp; omega
    split at h
    · split at h
      · simp at h
      · rename_i v r hl
        simp at h; obtain ⟨_, rfl⟩ := h
        have := lexString_length tl _ _ hl
        simp; omega
      · simp at h
    split at h
    · simp at h; obtain ⟨_, rfl⟩ := h; simp
    split at h
    · simp at h; obtain ⟨_, rfl⟩ := h; simp
    split at h
    · simp at h; obtain ⟨_, rfl⟩ := h; simp
    split at h
    · simp at h; obtain ⟨_, rfl⟩ := h; simp
    split at h
    · simp at h; obtain ⟨_, rfl⟩ := h; simp
    · simp at h

theorem next_err (pw : Bool) (line : Nat) (cs : List Char) (e : LexErr) (h : next pw line cs = .error e) :
    e ≠ .outOfFuel := by
  unfold next at h
  cases cs with
  | nil => simp at h; subst h; simp
  | cons c tl =>
    simp only at h
    split at h
    · simp at h
    split at h
    · simp at h
    split at h
    · simp at h
    split at h
    · simp at h
    split at h
    · simp at h
    split at h
    · simp at h
    split at h
    · simp at h
    split at h
    · simp at h
    split at h
    · simp at h
    split at h
    · simp at h
    split at h
    · simp at h
    split at h
    · simp at h
    split at h
    · simp at h
    split at h
    · split at h
      · simp at h; subst h; simp
      · simp at h
      · simp at h; subst h; simp
    split at h
    · simp at h
    split at h
    · simp at h
    split at h
    · simp at h
    split at h
    · simp at h
    split at h
    · simp at h
    · simp at h; subst h; simp

/-- **the lexer terminates**: with one unit of fuel per character the answer is never "out of fuel" -/
theorem lexAll_fuel : ∀ (f : Nat) (pw : Bool) (line : Nat) (cs : List Char), cs.length ≤ f →
    (lexAll f pw line cs).2 ≠ some .outOfFuel
  | _, _, _, [], _ => by simp [lexAll]
  | 0, _, _, _ :: _, h => by simp at h
  | f+1, pw, line, c :: cs, h => by
    have hcs : cs.length ≤ f := by simpa using h
    unfold lexAll
    by_cases hi : isIgnored c = true
    · simp only [hi, if_true]; exact lexAll_fuel f false line cs hcs
    · simp only [hi, Bool.false_eq_true, if_false]
      cases hn : next pw line (c :: cs) with
      | error e =>
        simp only
        have := next_err pw line (c :: cs) e hn
        intro he; simp at he; exact this he
      | ok kr =>
        obtain ⟨k, rest⟩ := kr
        simp only
        cases hw : widthOk k with
        | some sn => obtain ⟨sg, n⟩ := sn; simp
        | none =>
          simp only
          have hlt := next_shorter pw line (c :: cs) k rest hn
          exact lexAll_fuel f _ _ rest (by simp at hlt; omega)

/-- line numbers: a token is on line `l` where `l - 1` is the number of NEWLINE tokens before it -/
def LinesOk : Nat → List Token → Prop
  | _, [] => True
  | l, t :: ts => t.line = l ∧ LinesOk (if t.kind = .newline then l + 1 else l) ts

theorem lexAll_lines : ∀ (f : Nat) (pw : Bool) (line : Nat) (cs : List Char), LinesOk line (lexAll f pw line cs).1
  | _, _, _, [] => by simp [lexAll, LinesOk]
  | 0, _, _, _ :: _ => by simp [lexAll, LinesOk]
  | f+1, pw, line, c :: cs => by
    unfold lexAll
    by_cases hi : isIgnored c = true
    · simp only [hi, if_true]; exact lexAll_lines f false line cs
    · simp only [hi, Bool.false_eq_true, if_false]
      cases hn : next pw line (c :: cs) with
      | error e => simp [LinesOk]
      | ok kr =>
        obtain ⟨k, rest⟩ := kr
        simp only
        cases hw : widthOk k with
        | some sn => obtain ⟨sg, n⟩ := sn; simp [LinesOk]
        | none =>
          simp only [LinesOk, true_and]
          exact lexAll_lines f _ _ rest

theorem lex_total (text : List Char) : (lex text).2 ≠ some .outOfFuel :=
  lexAll_fuel text.length false 1 text (Nat.le_refl _)

end Bp.Lex
