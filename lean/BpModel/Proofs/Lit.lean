import BpModel.Model.Lit
/-! # Emitted literals denote the declared value -/
namespace Bp.Lit

theorem escChar_unescape (c : Char) (hc : c ≠ '\n' ∨ True) : ∀ (rest : List Char) (body tl : List Char),
    unescape rest = some (body, tl) → unescape (escChar c ++ rest) = some (c :: body, tl) := by
  intro rest body tl h
  unfold escChar
  by_cases h1 : c = '\\'
  · subst h1; simp [unescape, h]
  · by_cases h2 : c = '"'
    · subst h2; simp [unescape, h]
    · by_cases h3 : c = '\n'
      · subst h3; simp [unescape, h]
      · by_cases h4 : c = '\t'
        · subst h4; simp [unescape, h]
        · by_cases h5 : c = '\r'
          · subst h5; simp [unescape, h]
          · simp only [h1, h2, h3, h4, h5, if_false, List.cons_append, List.nil_append]
            -- an ordinary character stands for itself
            unfold unescape
            split <;> simp_all

theorem unescape_escape : ∀ (s : List Char), unescape (escape s ++ ['"']) = some (s, [])
  | [] => by simp [escape, unescape]
  | c :: s => by
    have ih := unescape_escape s
    have := escChar_unescape c (Or.inr trivial) (escape s ++ ['"']) s [] ih
    simpa [escape, List.flatMap_cons, List.append_assoc] using this

/-- every string constant is emitted as a literal that denotes exactly that string -/
theorem denoteStr_strLit (s : List Char) : denoteStr (strLit s) = some s := by
  simp [denoteStr, strLit, unescape_escape]

theorem denoteBool_boolLit (l : Lang) (b : Bool) : denoteBool l (boolLit l b) = some b := by
  cases l <;> cases b <;> rfl

theorem digitVal_ofNat (d : Nat) (h : d < 10) : digitVal? (Char.ofNat (48 + d)) = some d := by
  have : d = 0 ∨ d = 1 ∨ d = 2 ∨ d = 3 ∨ d = 4 ∨ d = 5 ∨ d = 6 ∨ d = 7 ∨ d = 8 ∨ d = 9 := by omega
  rcases this with h | h | h | h | h | h | h | h | h | h <;> subst h <;> decide

theorem readGo_append : ∀ (xs ys : List Char) (a : Nat),
    readGo a (xs ++ ys) = (readGo a xs).bind fun a' => readGo a' ys
  | [], ys, a => by simp [readGo]
  | c :: xs, ys, a => by
    simp only [List.cons_append, readGo]
    cases digitVal? c with
    | none => simp
    | some d => exact readGo_append xs ys _

theorem digits_ne_nil (n : Nat) : digits n ≠ [] := by
  rw [digits]; split <;> simp

theorem digit_not_minus (n : Nat) : ∀ c ∈ (digits n).head?, c ≠ '-' := by
  intro c hc
  induction n using Nat.strongRecOn with
  | _ n ih =>
    rw [digits] at hc
    split at hc
    · rename_i h
      simp at hc
      subst hc
      have : n = 0 ∨ n = 1 ∨ n = 2 ∨ n = 3 ∨ n = 4 ∨ n = 5 ∨ n = 6 ∨ n = 7 ∨ n = 8 ∨ n = 9 := by omega
      rcases this with h | h | h | h | h | h | h | h | h | h <;> subst h <;> decide
    · rename_i h
      have hne := digits_ne_nil (n / 10)
      cases hd : digits (n / 10) with
      | nil => exact absurd hd hne
      | cons x xs =>
        rw [hd] at hc
        simp at hc
        exact ih (n / 10) (by omega) (by rw [hd]; simp [hc])

theorem readGo_digits (n : Nat) : readGo 0 (digits n) = some n := by
  induction n using Nat.strongRecOn with
  | _ n ih =>
    rw [digits]
    split
    · rename_i h
      simp [readGo, digitVal_ofNat n h]
    · rename_i h
      rw [readGo_append, ih (n / 10) (by omega)]
      simp only [Option.bind_some, readGo, digitVal_ofNat (n % 10) (by omega)]
      congr 1; omega

theorem readNat_digits (n : Nat) : readNat? (digits n) = some n := by
  have hne := digits_ne_nil n
  cases hd : digits n with
  | nil => exact absurd hd hne
  | cons x xs => rw [← hd]; simp only [readNat?]; rw [hd, ← hd]; exact readGo_digits n

/-- every integer constant is emitted as a decimal literal that denotes exactly its value -/
theorem denoteInt_intLit (z : Int) : denoteInt (intLit z) = some z := by
  cases z with
  | ofNat n =>
    simp only [intLit]
    have hne := digits_ne_nil n
    cases hd : digits n with
    | nil => exact absurd hd hne
    | cons x xs =>
      have hx : x ≠ '-' := digit_not_minus n x (by rw [hd]; simp)
      have := readNat_digits n
      rw [hd] at this
      unfold denoteInt
      split
      · rename_i r heq
        injection heq with h1 h2
        exact absurd h1 hx
      · simp [this]
  | negSucc n =>
    simp only [intLit, denoteInt, readNat_digits]
    simp [Int.negSucc_eq]

end Bp.Lit
