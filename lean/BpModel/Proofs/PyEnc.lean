import BpModel.Proofs.Bits
import BpModel.Proofs.Helpers
/-!
# The Python encoder writes exactly the specified bits

`Writes act chunk`: from a cursor `i` above which the buffer is still clean, with room for the
chunk, `act` succeeds (no `IndexError`, no `ValueError`), advances the cursor by the chunk's
length, keeps every earlier bit and writes exactly `chunk` at `[i, i + length)`.
Leaves satisfy it by the chunk / loop lemmas; arrays and messages by `Writes.seq`.
-/
namespace Bp.PyRt
open Bp

/-- the value OR-ed into byte `i / 8` by one `encode_single_byte`, seen at its stream position -/
theorem encD_testBit (x : Int) (i j c p : Nat) (hc1 : c ≤ 8 - j % 8) (_hc2 : c ≤ 8 - i % 8) :
    ((smartShift (getByte x (j / 8 * 8)) (((j % 8 : Nat) : Int) - ((i % 8 : Nat) : Int)) &&& getMask (i % 8) c)
        <<< (8 * (i / 8))).testBit p =
      (decide (i ≤ p) && decide (p < i + c) && PyInt.tb x (j + (p - i))) := by
  simp only [Nat.testBit_shiftLeft, Nat.testBit_and, smartShift_testBit, getMask_testBit, getByte_testBit]
  by_cases h1 : i ≤ p
  · by_cases h2 : p < i + c
    · have e1 : p ≥ 8 * (i / 8) := by omega
      have e2 : i % 8 ≤ p - 8 * (i / 8) := by omega
      have e3 : p - 8 * (i / 8) < i % 8 + c := by omega
      have e4 : i % 8 ≤ p - 8 * (i / 8) + j % 8 := by omega
      have e5 : p - 8 * (i / 8) + j % 8 - i % 8 < 8 := by omega
      have e6 : j / 8 * 8 + (p - 8 * (i / 8) + j % 8 - i % 8) = j + (p - i) := by omega
      simp [h1, h2, e1, e2, e3, e4, e5, e6]
    · have : ¬ (p ≥ 8 * (i / 8) ∧ i % 8 ≤ p - 8 * (i / 8) ∧ p - 8 * (i / 8) < i % 8 + c) := by omega
      simp [h1, h2]
      intro a b c d; omega
  · simp [h1]
    intro a b c d; omega

theorem encChunk_spec (s : List Nat) (i : Nat) (x : Int) (j c : Nat) (hs : AllBytes s)
    (hi : i / 8 < s.length) (hc1 : c ≤ 8 - j % 8) (hc2 : c ≤ 8 - i % 8) :
    ∃ s', encChunk s i x j c = .ok s' ∧ AllBytes s' ∧ s'.length = s.length ∧
      ∀ p, (bytesToNat s').testBit p =
        ((bytesToNat s).testBit p || (decide (i ≤ p) && decide (p < i + c) && PyInt.tb x (j + (p - i)))) := by
  obtain ⟨d, hd⟩ : ∃ d, (smartShift (getByte x (j / 8 * 8)) (((j % 8 : Nat) : Int) - ((i % 8 : Nat) : Int)) &&&
    getMask (i % 8) c) = d := ⟨_, rfl⟩
  have hd256 : d < 256 := by
    rw [← hd]
    exact Nat.lt_of_le_of_lt Nat.and_le_right (getMask_lt _ _ (by omega))
  have hget : s[i / 8]? = some s[i / 8] := List.getElem?_eq_getElem hi
  have hold : s[i / 8] < 256 := hs _ (List.getElem_mem hi)
  have hor : (s[i / 8] ||| d) < 256 := Nat.or_lt_two_pow (n := 8) hold hd256
  simp only [encChunk, hget, hd, hor, if_true]
  refine ⟨_, rfl, ?_, ?_, ?_⟩
  · rw [setAt_or_eq_orAt _ _ _ _ hget]; exact orAt_allBytes _ _ _ hs hd256
  · rw [setAt_or_eq_orAt _ _ _ _ hget]; exact orAt_length _ _ _
  · intro p
    rw [setAt_or_eq_orAt _ _ _ _ hget, bytesToNat_orAt _ _ _ hs hd256 hi, Nat.testBit_or, ← hd,
      encD_testBit x i j c p hc1 hc2]

/-- the `process_base_type` loop (encode direction) -/
theorem procBaseEnc_spec (n : Nat) (x : Int) : ∀ (fuel : Nat) (s : List Nat) (i j : Nat),
    n - j ≤ fuel → j ≤ n → AllBytes s → i + (n - j) ≤ 8 * s.length →
    ∃ s', procBaseEnc n x fuel s i j = .ok (s', i + (n - j)) ∧ AllBytes s' ∧ s'.length = s.length ∧
      ∀ p, (bytesToNat s').testBit p =
        ((bytesToNat s).testBit p ||
          (decide (i ≤ p) && decide (p < i + (n - j)) && PyInt.tb x (j + (p - i)))) := by
  intro fuel
  induction fuel with
  | zero =>
    intro s i j hf hj hs _
    have h0 : n - j = 0 := by omega
    refine ⟨s, by simp [procBaseEnc, h0], hs, rfl, ?_⟩
    intro p; simp [h0]; intro h1 h2; omega
  | succ fuel ih =>
    intro s i j hf hj hs hroom
    unfold procBaseEnc
    by_cases hlt : j < n
    · simp only [hlt, if_true]
      have hc0 : nbitsToCopy i j n ≤ n - j := by unfold nbitsToCopy; omega
      have hcpos : 0 < nbitsToCopy i j n := by unfold nbitsToCopy; omega
      have hc1 : nbitsToCopy i j n ≤ 8 - j % 8 := by unfold nbitsToCopy; omega
      have hc2 : nbitsToCopy i j n ≤ 8 - i % 8 := by unfold nbitsToCopy; omega
      generalize nbitsToCopy i j n = c at *
      obtain ⟨s1, e1, a1, l1, b1⟩ := encChunk_spec s i x j c hs (by omega) hc1 hc2
      rw [e1]
      obtain ⟨s2, e2, a2, l2, b2⟩ := ih s1 (i + c) (j + c) (by omega) (by omega) a1 (by rw [l1]; omega)
      have e3 : i + c + (n - (j + c)) = i + (n - j) := by omega
      rw [e3] at e2
      refine ⟨s2, e2, a2, by rw [l2, l1], ?_⟩
      intro p
      rw [b2 p, b1 p]
      by_cases hb : (bytesToNat s).testBit p
      · simp [hb]
      · simp only [hb, Bool.false_or]
        by_cases h1 : i ≤ p
        · by_cases h2 : p < i + c
          · have : ¬ (i + c ≤ p) := by omega
            have h3 : p < i + (n - j) := by omega
            simp [h1, h2, this, h3]
          · have h4 : i + c ≤ p := by omega
            have e : j + c + (p - (i + c)) = j + (p - i) := by omega
            have e2 : (p < i + c + (n - (j + c))) = (p < i + (n - j)) := by
              apply propext; constructor <;> intro <;> omega
            simp [h1, h2, h4, e, e2]
        · have : ¬ (i + c ≤ p) := by omega
          simp [h1, this]
    · have h0 : n - j = 0 := by omega
      simp only [hlt, if_false]
      refine ⟨s, by simp [h0], hs, rfl, ?_⟩
      intro p; simp [h0]; intro h1 h2; omega

/-- an encoder action: buffer × cursor → buffer × cursor, or an exception -/
abbrev Act := List Nat → Nat → Except Exc (List Nat × Nat)

def Writes (act : Act) (chunk : List Bool) : Prop :=
  ∀ (s : List Nat) (i : Nat), AllBytes s → i + chunk.length ≤ 8 * s.length →
    (∀ p, i ≤ p → (bytesToNat s).testBit p = false) →
    ∃ s', act s i = .ok (s', i + chunk.length) ∧ AllBytes s' ∧ s'.length = s.length ∧
      ∀ p, (bytesToNat s').testBit p =
        ((bytesToNat s).testBit p ||
          (decide (i ≤ p) && decide (p < i + chunk.length) && bitAt chunk (p - i)))

theorem natBits_length (n u : Nat) : (natBits n u).length = n := by simp [natBits]
theorem leafBits_length (n : Nat) (x : Int) : (leafBits n x).length = n := by simp [leafBits, natBits]

theorem bitAt_natBits (n u k : Nat) : bitAt (natBits n u) k = (decide (k < n) && u.testBit k) := by
  unfold bitAt natBits
  by_cases h : k < n
  · simp [List.getD_eq_getElem?_getD, h]
  · simp [List.getD_eq_getElem?_getD, h]

theorem bitAt_leafBits (n : Nat) (x : Int) (k : Nat) :
    bitAt (leafBits n x) k = (decide (k < n) && PyInt.tb x k) := by
  rw [leafBits, bitAt_natBits, PyInt.tc_testBit]
  by_cases h : k < n <;> simp [h]

theorem writes_leaf (n : Nat) (x : Int) : Writes (encLeaf n x) (leafBits n x) := by
  intro s i hs hroom _
  rw [leafBits_length] at hroom ⊢
  obtain ⟨s', e, a, l, b⟩ := procBaseEnc_spec n x n s i 0 (by omega) (by omega) hs (by omega)
  refine ⟨s', by simpa [encLeaf] using e, a, l, ?_⟩
  intro p
  rw [b p, bitAt_leafBits]
  by_cases h1 : i ≤ p
  · by_cases h2 : p < i + n
    · have : p - i < n := by omega
      simp [h1, h2, this]
    · simp [h1, h2]
  · simp [h1]

theorem Writes.clean {act chunk} (h : Writes act chunk) (s : List Nat) (i : Nat)
    (hs : AllBytes s) (hroom : i + chunk.length ≤ 8 * s.length)
    (hz : ∀ p, i ≤ p → (bytesToNat s).testBit p = false) :
    ∀ s', act s i = .ok (s', i + chunk.length) →
      ∀ p, i + chunk.length ≤ p → (bytesToNat s').testBit p = false := by
  intro s' he p hp
  obtain ⟨s'', e, _, _, b⟩ := h s i hs hroom hz
  rw [he] at e
  have : s' = s'' := by injection e with e; injection e
  subst this
  rw [b p, hz p (by omega)]
  have : ¬ p < i + chunk.length := by omega
  simp [this]

/-- sequencing: `f` then `g` writes the concatenation -/
theorem Writes.seq {f g : Act} {a b : List Bool} (hf : Writes f a) (hg : Writes g b) :
    Writes (fun s i => match f s i with
      | .error e => .error e
      | .ok (s', i') => g s' i') (a ++ b) := by
  intro s i hs hroom hz
  simp only [List.length_append] at hroom ⊢
  obtain ⟨s1, e1, a1, l1, b1⟩ := hf s i hs (by omega) hz
  have hz1 := hf.clean s i hs (by omega) hz s1 e1
  obtain ⟨s2, e2, a2, l2, b2⟩ := hg s1 (i + a.length) a1 (by rw [l1]; omega) hz1
  refine ⟨s2, ?_, a2, by rw [l2, l1], ?_⟩
  · simp only [e1, e2]; congr 2; omega
  · intro p
    rw [b2 p, b1 p]
    by_cases hb : (bytesToNat s).testBit p
    · simp [hb]
    · simp only [hb, Bool.false_or]
      by_cases h1 : i ≤ p
      · by_cases h2 : p < i + a.length
        · have : ¬ (i + a.length ≤ p) := by omega
          have h3 : p < i + (a.length + b.length) := by omega
          simp [h1, h2, this, h3, bitAt_append_left a b (p - i) (by omega)]
        · have h4 : i + a.length ≤ p := by omega
          have e1 : p - (i + a.length) = p - i - a.length := by omega
          have e2 : (p < i + a.length + b.length) = (p < i + (a.length + b.length)) := by
            apply propext; constructor <;> intro <;> omega
          simp [h1, h2, h4, e1, e2, bitAt_append_right a b (p - i) (by omega)]
      · have : ¬ (i + a.length ≤ p) := by omega
        simp [h1, this]

theorem Writes.congr {f g : Act} {c : List Bool} (h : ∀ s i, f s i = g s i) (hg : Writes g c) :
    Writes f c := by
  intro s i hs hroom hz
  rw [h s i]; exact hg s i hs hroom hz

theorem Writes.nil : Writes (fun s i => .ok (s, i)) [] := by
  intro s i hs _ _
  refine ⟨s, by simp, hs, rfl, ?_⟩
  intro p; simp; intro _ h; omega

theorem writes_prefix (ext : Bool) (v : Nat) :
    Writes (encPrefix ext v) (if ext then natBits 16 v else []) := by
  cases ext with
  | false => exact Writes.congr (fun s i => by simp [encPrefix]) Writes.nil
  | true =>
    have h := writes_leaf 16 (v : Int)
    have e : leafBits 16 (v : Int) = natBits 16 v := by
      unfold leafBits natBits
      apply List.map_congr_left
      intro k hk
      have hk : k < 16 := by simpa using hk
      rw [PyInt.tc_testBit]; simp [hk]
    rw [e] at h
    exact Writes.congr (fun s i => by simp [encPrefix]) h

/-- the element loop over a Python list of exactly `cap` in-range elements -/
theorem writes_arr (f : Val → Act) (bits : Val → List Bool) :
    ∀ (vs : List Val), (∀ v ∈ vs, Writes (f v) (bits v)) →
      Writes (encArrWith f vs.length vs) (vs.flatMap bits)
  | [], _ => by simpa [encArrWith] using Writes.nil
  | v :: vs, h => by
    have h1 := h v (by simp)
    have h2 := writes_arr f bits vs (fun w hw => h w (by simp [hw]))
    have := Writes.seq h1 h2
    rw [List.flatMap_cons]
    refine Writes.congr (fun s i => ?_) this
    simp only [List.length_cons, encArrWith]
    cases f v s i <;> rfl

end Bp.PyRt
