import BpModel.Model.Evo
import BpModel.Proofs.PyEncTree
import BpModel.Proofs.PyDecInt
/-!
# Forward compatibility of the wire format (core of C05, and of C02 as the case `S1 = S2`)

`dec_evo`: if `S2` extends `S1` (`Evo S1 S2`) and the wire holds the bits of an in-range `S2`
value from bit `i`, the prefix-honouring decoder of `S1` returns the projection of that value and
stops exactly behind `S2`'s encoding.
-/
namespace Bp
open PyRt

/-- the wire `W` holds the bit chunk `c` from bit `i` -/
def HoldsBits (c : List Bool) (W i : Nat) : Prop := ∀ k, k < c.length → W.testBit (i + k) = bitAt c k

theorem HoldsBits.left {a b : List Bool} {W i : Nat} (h : HoldsBits (a ++ b) W i) : HoldsBits a W i := by
  intro k hk
  rw [h k (by simp; omega), bitAt_append_left a b k hk]

theorem HoldsBits.right {a b : List Bool} {W i : Nat} (h : HoldsBits (a ++ b) W i) :
    HoldsBits b W (i + a.length) := by
  intro k hk
  have := h (a.length + k) (by simp; omega)
  rw [bitAt_append_right a b _ (by omega)] at this
  have e : a.length + k - a.length = k := by omega
  rw [e] at this
  rw [← this]; congr 1; omega

theorem holds_readNat (n u W i : Nat) (h : HoldsBits (natBits n u) W i) : readNat W i n = u % 2^n := by
  apply Nat.eq_of_testBit_eq
  intro k
  rw [readNat_testBit, Nat.testBit_mod_two_pow]
  by_cases hk : k < n
  · rw [h k (by rw [natBits_length]; exact hk), bitAt_natBits]; simp [hk]
  · simp [hk]

theorem holds_readLeaf (n : Nat) (x : Int) (W i : Nat) (h : HoldsBits (leafBits n x) W i) :
    readNat W i n = tc x n := by
  have := holds_readNat n (tc x n) W i h
  rw [this, Nat.mod_eq_of_lt (PyInt.tc_lt x n)]

theorem tc_of_nonneg (x : Int) (n : Nat) (h0 : 0 ≤ x) (h1 : x < (2:Int)^n) : ((tc x n : Nat) : Int) = x := by
  unfold tc
  rw [Int.emod_eq_of_lt h0 h1, Int.toNat_of_nonneg h0]

theorem tb_const_of_range (x : Int) (n : Nat) (_hn : 1 ≤ n) (lo : -(2:Int)^(n-1) ≤ x) (hi : x < (2:Int)^(n-1))
    (k : Nat) (hk : n - 1 ≤ k) : PyInt.tb x k = PyInt.tb x (n - 1) := by
  have hp : ((2:Int)^(n-1)) = ((2^(n-1) : Nat) : Int) := by norm_cast
  cases x with
  | ofNat m =>
    have hm : m < 2^(n-1) := by
      have : ((m : Nat) : Int) < ((2^(n-1) : Nat) : Int) := by rw [← hp]; exact hi
      exact_mod_cast this
    have f : ∀ j, n - 1 ≤ j → m.testBit j = false := fun j hj =>
      Nat.testBit_lt_two_pow (Nat.lt_of_lt_of_le hm (Nat.pow_le_pow_right (by decide) hj))
    show m.testBit k = m.testBit (n-1)
    rw [f k hk, f (n-1) (Nat.le_refl _)]
  | negSucc m =>
    have hm : m < 2^(n-1) := by
      rw [hp] at lo
      have : Int.negSucc m = -((m : Int) + 1) := rfl
      rw [this] at lo
      have : ((m : Nat) : Int) < ((2^(n-1) : Nat) : Int) := by omega
      exact_mod_cast this
    have f : ∀ j, n - 1 ≤ j → m.testBit j = false := fun j hj =>
      Nat.testBit_lt_two_pow (Nat.lt_of_lt_of_le hm (Nat.pow_le_pow_right (by decide) hj))
    show (!m.testBit k) = !m.testBit (n-1)
    rw [f k hk, f (n-1) (Nat.le_refl _)]

theorem sgn_tc (x : Int) (n : Nat) (hn : 1 ≤ n) (lo : -(2:Int)^(n-1) ≤ x) (hi : x < (2:Int)^(n-1)) :
    sgn (tc x n) n = x := by
  apply PyInt.eq_of_tb_eq
  intro k
  rw [tb_sgn _ n hn (PyInt.tc_lt x n), PyInt.tc_testBit, PyInt.tc_testBit]
  have hn1 : n - 1 < n := by omega
  by_cases hk : k < n
  · simp [hk]
  · simp only [hk, if_false, hn1, decide_true, Bool.true_and]
    exact (tb_const_of_range x n hn lo hi k (by omega)).symm

/-! ## values of in-range scalars come back unchanged -/

theorem flatMap_bits_length (e : Ty) : ∀ (vs : List Val), (∀ v ∈ vs, inRange e v = true) →
    (vs.flatMap (Spec.bits e)).length = vs.length * e.nbits
  | [], _ => by simp
  | v :: vs, h => by
    have h1 := bits_length e v (shape_of_inRange e v (h v (by simp)))
    have h2 := flatMap_bits_length e vs (fun w hw => h w (by simp [hw]))
    simp [List.flatMap_cons, h1, h2, Nat.add_mul]; omega

theorem decArr_lemma (e1 e2 : Ty) (W L : Nat)
    (ih : ∀ v j, inRange e2 v = true → HoldsBits (Spec.bits e2 v) W j → j + e2.nbits ≤ L →
      Spec.dec e1 W L j = some (Spec.proj e1 v, j + e2.nbits)) :
    ∀ (k : Nat) (vs : List Val) (j : Nat), k ≤ vs.length → (∀ v ∈ vs, inRange e2 v = true) →
      HoldsBits (vs.flatMap (Spec.bits e2)) W j → j + vs.length * e2.nbits ≤ L →
      decArrWith (Spec.dec e1 W L) k j = some ((vs.take k).map (Spec.proj e1), j + k * e2.nbits)
  | 0, vs, j, _, _, _, _ => by simp [decArrWith]
  | k+1, [], j, h, _, _, _ => by simp at h
  | k+1, v :: vs, j, h, hr, hb, hL => by
    have hv := hr v (by simp)
    have hlen := bits_length e2 v (shape_of_inRange e2 v hv)
    rw [List.flatMap_cons] at hb
    have hL' : j + e2.nbits + vs.length * e2.nbits ≤ L := by
      simp only [List.length_cons, Nat.add_mul] at hL; omega
    have h1 := ih v j hv hb.left (by omega)
    have hb2 := hb.right
    rw [hlen] at hb2
    have h2 := decArr_lemma e1 e2 W L ih k vs (j + e2.nbits) (by simpa using h)
      (fun w hw => hr w (by simp [hw])) hb2 hL'
    simp only [decArrWith, h1, h2, List.take_succ_cons, List.map_cons]
    congr 2
    rw [Nat.add_mul]; omega

mutual
theorem dec_evo : ∀ {S1 S2 : Ty}, Evo S1 S2 → ∀ (v2 : Val) (W L i : Nat), S2.wf = true →
    inRange S2 v2 = true → HoldsBits (Spec.bits S2 v2) W i → i + S2.nbits ≤ L →
    Spec.dec S1 W L i = some (Spec.proj S1 v2, i + S2.nbits)
  | _, _, .bool, .int x, W, L, i, _, hr, hb, hL => by
    simp only [Spec.bits] at hb
    simp only [inRange, Bool.or_eq_true, decide_eq_true_eq] at hr
    have h0 : 0 ≤ x ∧ x < (2:Int)^1 := by rcases hr with h | h <;> subst h <;> decide
    simp only [Ty.nbits] at hL
    simp [Spec.dec, readB, hL, Spec.proj, Ty.nbits, holds_readLeaf 1 x W i hb, tc_of_nonneg x 1 h0.1 h0.2]
  | _, _, .byte, .int x, W, L, i, _, hr, hb, hL => by
    simp only [Spec.bits] at hb
    simp only [inRange, Bool.and_eq_true, decide_eq_true_eq] at hr
    simp only [Ty.nbits] at hL
    simp [Spec.dec, readB, hL, Spec.proj, Ty.nbits, holds_readLeaf 8 x W i hb,
      tc_of_nonneg x 8 hr.1 (by simpa using hr.2)]
  | _, _, .uint (n := n), .int x, W, L, i, _, hr, hb, hL => by
    simp only [Spec.bits] at hb
    simp only [inRange, Bool.and_eq_true, decide_eq_true_eq] at hr
    simp only [Ty.nbits] at hL
    simp [Spec.dec, readB, hL, Spec.proj, Ty.nbits, holds_readLeaf n x W i hb, tc_of_nonneg x n hr.1 hr.2]
  | _, _, .int (n := n), .int x, W, L, i, hwf, hr, hb, hL => by
    simp only [Spec.bits] at hb
    simp only [inRange, Bool.and_eq_true, decide_eq_true_eq] at hr
    simp only [Ty.wf, Bool.and_eq_true, decide_eq_true_eq] at hwf
    simp only [Ty.nbits] at hL
    simp [Spec.dec, readB, hL, Spec.proj, Ty.nbits, holds_readLeaf n x W i hb, sgn_tc x n hwf.1 hr.1 hr.2]
  | _, _, .enum (n := n), .int x, W, L, i, _, hr, hb, hL => by
    simp only [Spec.bits] at hb
    simp only [inRange, Bool.and_eq_true, decide_eq_true_eq] at hr
    simp only [Ty.nbits] at hL
    simp [Spec.dec, readB, hL, Spec.proj, Ty.nbits, holds_readLeaf n x W i hb, tc_of_nonneg x n hr.1.1 hr.1.2]
  | _, _, .alias (t1 := t1) (t2 := t2) hs, v2, W, L, i, hwf, hr, hb, hL => by
    have := dec_evo hs v2 W L i (by simp only [Ty.wf, Bool.and_eq_true] at hwf; exact hwf.2)
      (by simpa [inRange] using hr) (by simpa [Spec.bits] using hb) (by simpa [Ty.nbits] using hL)
    simpa [Spec.dec, Spec.proj, Ty.nbits] using this
  | _, _, .arr (ext := ext) (c1 := c1) (c2 := c2) (e1 := e1) (e2 := e2) h1 h12 hne hs, .arr vs, W, L, i,
      hwf, hr, hb, hL => by
    simp only [Ty.wf, Bool.and_eq_true, decide_eq_true_eq] at hwf
    obtain ⟨⟨⟨hc1, hc65⟩, _⟩, hwfe⟩ := hwf
    simp only [inRange, Bool.and_eq_true, decide_eq_true_eq, List.all_eq_true] at hr
    obtain ⟨hlen, hall⟩ := hr
    have ih : ∀ v j, inRange e2 v = true → HoldsBits (Spec.bits e2 v) W j → j + e2.nbits ≤ L →
        Spec.dec e1 W L j = some (Spec.proj e1 v, j + e2.nbits) :=
      fun v j hv hbv hLv => dec_evo hs v W L j hwfe hv hbv hLv
    simp only [Spec.bits] at hb
    simp only [Ty.nbits] at hL
    cases ext with
    | true =>
      simp only [if_true, extBits] at hb hL
      have hah : readNat W i 16 = c2 := by
        rw [holds_readNat 16 c2 W i hb.left]; apply Nat.mod_eq_of_lt; omega
      have hb2 := hb.right
      rw [natBits_length] at hb2
      have hd := decArr_lemma e1 e2 W L ih c1 vs (i + 16) (by omega) hall hb2 (by rw [hlen]; omega)
      have hrd : readB W L i 16 = some c2 := by simp [readB, hah]; omega
      simp only [Spec.dec, if_true, hrd, hd, Spec.proj, Ty.nbits, extBits]
      have hper : (i + 16 + c1 * e2.nbits - i - 16) / c1 = e2.nbits := by
        have : i + 16 + c1 * e2.nbits - i - 16 = c1 * e2.nbits := by omega
        rw [this, Nat.mul_div_cancel_left _ (by omega)]
      rw [hper]
      congr 2
      by_cases hgt : c2 > c1
      · simp only [hgt, if_true]
        have : c2 * e2.nbits = c1 * e2.nbits + (c2 - c1) * e2.nbits := by
          rw [← Nat.add_mul]; congr 1; omega
        omega
      · have : c1 = c2 := by omega
        subst this
        simp [hgt]; omega
    | false =>
      have hc : c1 = c2 := hne rfl
      subst hc
      simp only [Bool.false_eq_true, if_false, extBits, List.nil_append, Nat.zero_add] at hb hL
      have hd := decArr_lemma e1 e2 W L ih c1 vs i (by omega) hall hb (by rw [hlen]; omega)
      simp only [Spec.dec, Bool.false_eq_true, if_false, hd, Spec.proj, Ty.nbits, extBits]
      rw [List.take_of_length_le (by omega)]
      simp
  | _, _, .msg (ext := ext) (fs1 := fs1) (fs2 := fs2) hs, .msg vs, W, L, i, hwf, hr, hb, hL => by
    simp only [Ty.wf, Bool.and_eq_true, decide_eq_true_eq] at hwf
    obtain ⟨⟨_, h65⟩, hwff⟩ := hwf
    simp only [inRange] at hr
    simp only [Spec.bits] at hb
    simp only [Ty.nbits] at hL
    cases ext with
    | true =>
      simp only [if_true, extBits] at hb hL h65
      have hah : readNat W i 16 = 16 + fieldsBits fs2 := by
        rw [holds_readNat 16 _ W i hb.left]; apply Nat.mod_eq_of_lt; omega
      have hb2 := hb.right
      rw [natBits_length] at hb2
      obtain ⟨used, hd, hle, _⟩ := dec_evo_fields hs vs W L (i + 16) hwff hr hb2 (by omega)
      have hrd : readB W L i 16 = some (16 + fieldsBits fs2) := by simp [readB, hah]; omega
      simp only [Spec.dec, if_true, hrd, hd, Spec.proj, Ty.nbits, extBits]
      have : i + (16 + fieldsBits fs2) ≥ i + 16 + used := by omega
      simp [this]
    | false =>
      simp only [Bool.false_eq_true, if_false, extBits, List.nil_append, Nat.zero_add] at hb hL
      obtain ⟨used, hd, _, heq⟩ := dec_evo_fields hs vs W L i hwff hr hb hL
      have := heq rfl
      simp [Spec.dec, hd, Spec.proj, Ty.nbits, extBits, this]
  | _, _, .bool, .arr _, _, _, _, _, hr, _, _ | _, _, .bool, .msg _, _, _, _, _, hr, _, _ => by simp [inRange] at hr
  | _, _, .byte, .arr _, _, _, _, _, hr, _, _ | _, _, .byte, .msg _, _, _, _, _, hr, _, _ => by simp [inRange] at hr
  | _, _, .uint, .arr _, _, _, _, _, hr, _, _ | _, _, .uint, .msg _, _, _, _, _, hr, _, _ => by simp [inRange] at hr
  | _, _, .int, .arr _, _, _, _, _, hr, _, _ | _, _, .int, .msg _, _, _, _, _, hr, _, _ => by simp [inRange] at hr
  | _, _, .enum, .arr _, _, _, _, _, hr, _, _ | _, _, .enum, .msg _, _, _, _, _, hr, _, _ => by simp [inRange] at hr
  | _, _, .arr _ _ _ _, .int _, _, _, _, _, hr, _, _ | _, _, .arr _ _ _ _, .msg _, _, _, _, _, hr, _, _ => by
    simp [inRange] at hr
  | _, _, .msg _, .int _, _, _, _, _, hr, _, _ | _, _, .msg _, .arr _, _, _, _, _, hr, _, _ => by
    simp [inRange] at hr
theorem dec_evo_fields : ∀ {ext : Bool} {fs1 fs2 : List (Nat × Ty)}, EvoFields ext fs1 fs2 →
    ∀ (vs : List Val) (W L j : Nat), wfFields fs2 = true → inRangeFields fs2 vs = true →
    HoldsBits (Spec.bitsFields fs2 vs) W j → j + fieldsBits fs2 ≤ L →
    ∃ used, Spec.decFields fs1 W L j = some (Spec.projFields fs1 vs, j + used) ∧ used ≤ fieldsBits fs2 ∧
      (ext = false → used = fieldsBits fs2)
  | _, _, _, .nil, vs, W, L, j, _, _, _, _ =>
    ⟨0, by simp [Spec.decFields, Spec.projFields], by simp [fieldsBits], by simp [fieldsBits]⟩
  | _, _, _, .extra, vs, W, L, j, _, _, _, _ =>
    ⟨0, by simp [Spec.decFields, Spec.projFields], by omega, by simp⟩
  | _, _, _, .cons (k := k) (t1 := t1) (t2 := t2) (fs1 := fs1) (fs2 := fs2) ht hfs, v :: vs, W, L, j,
      hwf, hr, hb, hL => by
    simp only [wfFields, Bool.and_eq_true] at hwf
    simp only [inRangeFields, Bool.and_eq_true] at hr
    simp only [Spec.bitsFields] at hb
    simp only [fieldsBits] at hL
    have hlen := bits_length t2 v (shape_of_inRange t2 v hr.1)
    have h1 := dec_evo ht v W L j hwf.1 hr.1 hb.left (by omega)
    have hb2 := hb.right
    rw [hlen] at hb2
    obtain ⟨used, hd, hle, heq⟩ := dec_evo_fields hfs vs W L (j + t2.nbits) hwf.2 hr.2 hb2 (by omega)
    refine ⟨t2.nbits + used, ?_, ?_, ?_⟩
    · simp only [Spec.decFields, h1, hd, Spec.projFields]
      congr 2; omega
    · simp [fieldsBits]; omega
    · intro h; simp [fieldsBits, heq h]
  | _, _, _, .cons _ _, [], _, _, _, _, hr, _, _ => by simp [inRangeFields] at hr
end

end Bp
