import BpModel.Model.JsonText
import BpModel.Proofs.Lit
/-!
Reading back what was written: `parse (renderWith s j) = some j` for the compact separators of the C
runtime and for `json.dumps`' default ones, for every JSON value whose keys contain no quote.
-/
namespace Bp.JsonText
open Bp

theorem digitVal_isDigit (c : Char) (d : Nat) (h : Lit.digitVal? c = some d) : isDigit c = true ∧ d = c.toNat - 48 := by
  unfold Lit.digitVal? at h
  split at h
  · rename_i hc
    simp at h
    exact ⟨by simp [isDigit, hc.1, hc.2], h.symm⟩
  · simp at h

/-- digits at the front are read exactly as `Lit.readGo` reads a whole digit string -/
theorem readPre_append : ∀ (xs rest : List Char) (a a' : Nat), Lit.readGo a xs = some a' →
    readPre a (xs ++ rest) = readPre a' rest
  | [], rest, a, a', h => by simp [Lit.readGo] at h; subst h; rfl
  | c :: xs, rest, a, a', h => by
    simp only [Lit.readGo] at h
    cases hd : Lit.digitVal? c with
    | none => simp [hd] at h
    | some d =>
      simp only [hd] at h
      obtain ⟨hc, rfl⟩ := digitVal_isDigit c d hd
      simp only [List.cons_append, readPre, hc, if_true]
      exact readPre_append xs rest _ a' h

def startsDigit : List Char → Bool
  | c :: _ => isDigit c
  | [] => false

theorem readPre_stop (a : Nat) (rest : List Char) (h : startsDigit rest = false) : readPre a rest = (a, rest) := by
  cases rest with
  | nil => rfl
  | cons c cs => simp only [startsDigit] at h; simp [readPre, h]

theorem readPre_digits (n : Nat) (rest : List Char) (h : startsDigit rest = false) :
    readPre 0 (Lit.digits n ++ rest) = (n, rest) := by
  rw [readPre_append _ rest 0 n (Lit.readGo_digits n), readPre_stop n rest h]

/-- the first character of a digit string is a digit -/
theorem digits_head (n : Nat) : ∃ c r, Lit.digits n = c :: r ∧ isDigit c = true := by
  induction n using Nat.strongRecOn with
  | _ n ih =>
    rw [Lit.digits]
    split
    · rename_i h
      refine ⟨_, [], rfl, ?_⟩
      have : n = 0 ∨ n = 1 ∨ n = 2 ∨ n = 3 ∨ n = 4 ∨ n = 5 ∨ n = 6 ∨ n = 7 ∨ n = 8 ∨ n = 9 := by omega
      rcases this with h | h | h | h | h | h | h | h | h | h <;> subst h <;> decide
    · rename_i h
      obtain ⟨c, r, hr, hc⟩ := ih (n / 10) (by omega)
      exact ⟨c, r ++ [Char.ofNat (48 + n % 10)], by rw [hr]; rfl, hc⟩

theorem readKey_append : ∀ (k rest : List Char), '"' ∉ k → readKey (k ++ '"' :: rest) = some (k, rest)
  | [], rest, _ => by simp [readKey]
  | c :: k, rest, h => by
    have hc : c ≠ '"' := by intro e; exact h (by simp [e])
    have ih := readKey_append k rest (by intro e; exact h (by simp [e]))
    simp only [List.cons_append]
    rw [readKey]
    · simp [ih]
    · intro e; exact hc e

def blanks (n : Nat) : List Char := List.replicate n ' '

/-- separators: a comma / colon followed by blanks -/
structure SepOk (s : Sep) : Prop where
  item : ∃ a, s.item = ',' :: blanks a
  key : ∃ b, s.key = ':' :: blanks b

theorem compact_ok : SepOk compact := ⟨⟨0, rfl⟩, ⟨0, rfl⟩⟩
theorem pyDefault_ok : SepOk pyDefault := ⟨⟨1, rfl⟩, ⟨1, rfl⟩⟩

theorem skipBlanks_cons (c : Char) (cs : List Char) (h : c ≠ ' ') : skipBlanks (c :: cs) = c :: cs := by
  rw [skipBlanks]
  intro cs' e; exact h (by injection e with e1 _)

theorem skipBlanks_blanks : ∀ (n : Nat) (c : Char) (cs : List Char), c ≠ ' ' → skipBlanks (blanks n ++ c :: cs) = c :: cs
  | 0, c, cs, h => by simpa [blanks] using skipBlanks_cons c cs h
  | n+1, c, cs, h => by
    have ih := skipBlanks_blanks n c cs h
    simp only [blanks, List.replicate_succ, List.cons_append] at ih ⊢
    rw [skipBlanks]; exact ih

mutual
def keysOk : JT → Bool
  | .num _ => true
  | .bool _ => true
  | .arr xs => keysOkL xs
  | .obj kvs => keysOkF kvs
def keysOkL : List JT → Bool
  | [] => true
  | x :: xs => keysOk x && keysOkL xs
def keysOkF : List (List Char × JT) → Bool
  | [] => true
  | (k, v) :: kvs => !k.contains '"' && keysOk v && keysOkF kvs
end

mutual
def need : JT → Nat
  | .num _ => 1
  | .bool _ => 1
  | .arr [] => 1
  | .arr (x :: xs) => 1 + need x + needE xs
  | .obj [] => 1
  | .obj ((_, v) :: kvs) => 1 + need v + needF kvs
def needE : List JT → Nat
  | [] => 1
  | x :: xs => 1 + need x + needE xs
def needF : List (List Char × JT) → Nat
  | [] => 1
  | (_, v) :: kvs => 1 + need v + needF kvs
end

/-- what a rendered value starts with -/
theorem render_head (s : Sep) (j : JT) : ∃ c r, renderWith s j = c :: r ∧ c ≠ ' ' ∧
    (isDigit c = true ∨ c = '-' ∨ c = 't' ∨ c = 'f' ∨ c = '[' ∨ c = '{') := by
  cases j with
  | num x =>
    cases x with
    | ofNat n =>
      obtain ⟨c, r, hr, hc⟩ := digits_head n
      refine ⟨c, r, by simp [renderWith, Lit.intLit, hr], ?_, .inl hc⟩
      intro e; subst e; simp [isDigit] at hc
    | negSucc n => exact ⟨'-', Lit.digits (n + 1), by simp [renderWith, Lit.intLit], by decide, .inr (.inl rfl)⟩
  | bool b => cases b <;> simp [renderWith]
  | arr xs => cases xs <;> simp [renderWith]
  | obj kvs =>
    cases kvs with
    | nil => simp [renderWith]
    | cons kv kvs => obtain ⟨k, v⟩ := kv; simp [renderWith]

theorem elems_start (s : Sep) (hs : SepOk s) (xs : List JT) (rest : List Char) :
    startsDigit (renderElems s xs ++ ']' :: rest) = false := by
  cases xs with
  | nil => simp [renderElems, startsDigit, isDigit]
  | cons x xs =>
    obtain ⟨a, ha⟩ := hs.item
    simp [renderElems, ha, startsDigit, isDigit]

theorem fields_start (s : Sep) (hs : SepOk s) (kvs : List (List Char × JT)) (rest : List Char) :
    startsDigit (renderFields s kvs ++ '}' :: rest) = false := by
  cases kvs with
  | nil => simp [renderFields, startsDigit, isDigit]
  | cons kv kvs =>
    obtain ⟨k, v⟩ := kv
    obtain ⟨a, ha⟩ := hs.item
    simp [renderFields, ha, startsDigit, isDigit]

/-- a number at the front -/
theorem parseVal_num (x : Int) (rest : List Char) (f : Nat) (hr : startsDigit rest = false) :
    parseVal (f + 1) (Lit.intLit x ++ rest) = some (.num x, rest) := by
  cases x with
  | ofNat n =>
    obtain ⟨c, r, hd, hc⟩ := digits_head n
    have hread := readPre_digits n rest hr
    simp only [Lit.intLit]
    rw [hd] at hread ⊢
    have ht : c ≠ 't' := by intro e; subst e; simp [isDigit] at hc
    have hf : c ≠ 'f' := by intro e; subst e; simp [isDigit] at hc
    have hb : c ≠ '[' := by intro e; subst e; simp [isDigit] at hc
    have ho : c ≠ '{' := by intro e; subst e; simp [isDigit] at hc
    have hm : c ≠ '-' := by intro e; subst e; simp [isDigit] at hc
    simp only [List.cons_append] at hread ⊢
    rw [parseVal]
    · simp [hc, hread]
    all_goals (intros; simp_all)
  | negSucc n =>
    obtain ⟨c, r, hd, hc⟩ := digits_head (n + 1)
    have hread := readPre_digits (n + 1) rest hr
    simp only [Lit.intLit]
    rw [hd] at hread ⊢
    simp only [List.cons_append] at hread ⊢
    rw [parseVal]
    simp [hc, hread, Int.negSucc_eq]

mutual
theorem parseVal_render (s : Sep) (hs : SepOk s) : ∀ (j : JT) (rest : List Char) (f : Nat),
    keysOk j = true → startsDigit rest = false → need j ≤ f → parseVal f (renderWith s j ++ rest) = some (j, rest)
  | .num x, rest, f, _, hr, hf => by
    obtain ⟨f', rfl⟩ : ∃ f', f = f' + 1 := ⟨f - 1, by simp [need] at hf; omega⟩
    simpa [renderWith] using parseVal_num x rest f' hr
  | .bool b, rest, f, _, _, hf => by
    obtain ⟨f', rfl⟩ : ∃ f', f = f' + 1 := ⟨f - 1, by simp [need] at hf; omega⟩
    cases b <;> simp [renderWith, parseVal]
  | .arr [], rest, f, _, _, hf => by
    obtain ⟨f', rfl⟩ : ∃ f', f = f' + 1 := ⟨f - 1, by simp [need] at hf; omega⟩
    simp [renderWith, parseVal]
  | .arr (x :: xs), rest, f, hk, hr, hf => by
    obtain ⟨f', rfl⟩ : ∃ f', f = f' + 1 := ⟨f - 1, by simp [need] at hf; omega⟩
    simp only [need] at hf
    simp only [keysOk, keysOkL, Bool.and_eq_true] at hk
    have h1 := parseVal_render s hs x (renderElems s xs ++ ']' :: rest) f' hk.1 (elems_start s hs xs rest) (by omega)
    have h2 := parseElems_render s hs xs rest f' hk.2 (by omega)
    obtain ⟨c, r, hc, _, hcs⟩ := render_head s x
    have hnb : c ≠ ']' := by
      rcases hcs with h | h | h | h | h | h
      · intro e; subst e; simp [isDigit] at h
      all_goals (subst h; decide)
    simp only [renderWith, List.cons_append, List.append_assoc, List.nil_append]
    rw [hc] at h1 ⊢
    simp only [List.cons_append] at h1 ⊢
    rw [parseVal]
    · simp [h1, h2]
    · intro r' e; exact hnb (by injection e with e1 _)
  | .obj [], rest, f, _, _, hf => by
    obtain ⟨f', rfl⟩ : ∃ f', f = f' + 1 := ⟨f - 1, by simp [need] at hf; omega⟩
    simp [renderWith, parseVal]
  | .obj ((k, v) :: kvs), rest, f, hk, hr, hf => by
    obtain ⟨f', rfl⟩ : ∃ f', f = f' + 1 := ⟨f - 1, by simp [need] at hf; omega⟩
    simp only [need] at hf
    simp only [keysOk, keysOkF, Bool.and_eq_true, Bool.not_eq_true'] at hk
    obtain ⟨b, hb⟩ := hs.key
    have h1 := parseVal_render s hs v (renderFields s kvs ++ '}' :: rest) f' hk.1.2 (fields_start s hs kvs rest) (by omega)
    have h2 := parseFields_render s hs kvs rest f' hk.2 (by omega)
    obtain ⟨c, r, hc, hsp, _⟩ := render_head s v
    have hq : '"' ∉ k := by
      have := hk.1.1
      simpa [List.contains_eq_mem] using this
    simp only [renderWith, List.cons_append, List.append_assoc, List.nil_append, hb]
    rw [parseVal]
    · have hk2 : readKey (k ++ '"' :: ':' :: (blanks b ++ (renderWith s v ++ (renderFields s kvs ++ '}' :: rest)))) =
          some (k, ':' :: (blanks b ++ (renderWith s v ++ (renderFields s kvs ++ '}' :: rest)))) := readKey_append k _ hq
      simp only [hk2]
      rw [hc] at h1 ⊢
      simp only [List.cons_append] at h1 ⊢
      rw [skipBlanks_blanks b c _ hsp]
      simp [h1, h2]
    all_goals (intros; simp_all)
theorem parseElems_render (s : Sep) (hs : SepOk s) : ∀ (xs : List JT) (rest : List Char) (f : Nat),
    keysOkL xs = true → needE xs ≤ f → parseElems f (renderElems s xs ++ ']' :: rest) = some (xs, rest)
  | [], rest, f, _, hf => by
    obtain ⟨f', rfl⟩ : ∃ f', f = f' + 1 := ⟨f - 1, by simp [needE] at hf; omega⟩
    simp [renderElems, parseElems]
  | x :: xs, rest, f, hk, hf => by
    obtain ⟨f', rfl⟩ : ∃ f', f = f' + 1 := ⟨f - 1, by simp [needE] at hf; omega⟩
    simp only [needE] at hf
    simp only [keysOkL, Bool.and_eq_true] at hk
    obtain ⟨a, ha⟩ := hs.item
    have h1 := parseVal_render s hs x (renderElems s xs ++ ']' :: rest) f' hk.1 (elems_start s hs xs rest) (by omega)
    have h2 := parseElems_render s hs xs rest f' hk.2 (by omega)
    obtain ⟨c, r, hc, hsp, _⟩ := render_head s x
    simp only [renderElems, ha, List.cons_append, List.append_assoc]
    rw [parseElems]
    rw [hc] at h1 ⊢
    simp only [List.cons_append] at h1 ⊢
    rw [skipBlanks_blanks a c _ hsp]
    simp [h1, h2]
theorem parseFields_render (s : Sep) (hs : SepOk s) : ∀ (kvs : List (List Char × JT)) (rest : List Char) (f : Nat),
    keysOkF kvs = true → needF kvs ≤ f → parseFields f (renderFields s kvs ++ '}' :: rest) = some (kvs, rest)
  | [], rest, f, _, hf => by
    obtain ⟨f', rfl⟩ : ∃ f', f = f' + 1 := ⟨f - 1, by simp [needF] at hf; omega⟩
    simp [renderFields, parseFields]
  | (k, v) :: kvs, rest, f, hk, hf => by
    obtain ⟨f', rfl⟩ : ∃ f', f = f' + 1 := ⟨f - 1, by simp [needF] at hf; omega⟩
    simp only [needF] at hf
    simp only [keysOkF, Bool.and_eq_true, Bool.not_eq_true'] at hk
    obtain ⟨a, ha⟩ := hs.item
    obtain ⟨b, hb⟩ := hs.key
    have h1 := parseVal_render s hs v (renderFields s kvs ++ '}' :: rest) f' hk.1.2 (fields_start s hs kvs rest) (by omega)
    have h2 := parseFields_render s hs kvs rest f' hk.2 (by omega)
    obtain ⟨c, r, hc, hsp, _⟩ := render_head s v
    have hq : '"' ∉ k := by
      have := hk.1.1
      simpa [List.contains_eq_mem] using this
    simp only [renderFields, ha, hb, List.cons_append, List.append_assoc]
    rw [parseFields]
    rw [skipBlanks_blanks a '"' _ (by decide)]
    have hk2 : readKey (k ++ '"' :: ':' :: (blanks b ++ (renderWith s v ++ (renderFields s kvs ++ '}' :: rest)))) =
        some (k, ':' :: (blanks b ++ (renderWith s v ++ (renderFields s kvs ++ '}' :: rest)))) := readKey_append k _ hq
    simp only [hk2]
    rw [hc] at h1 ⊢
    simp only [List.cons_append] at h1 ⊢
    rw [skipBlanks_blanks b c _ hsp]
    simp [h1, h2]
end

theorem intLit_length (x : Int) : 1 ≤ (Lit.intLit x).length := by
  cases x with
  | ofNat n => obtain ⟨c, r, hd, _⟩ := digits_head n; simp [Lit.intLit, hd]
  | negSucc n => simp [Lit.intLit]

mutual
theorem need_le (s : Sep) (hs : SepOk s) : ∀ (j : JT), need j ≤ (renderWith s j).length
  | .num x => by simpa [need, renderWith] using intLit_length x
  | .bool b => by cases b <;> simp [need, renderWith]
  | .arr [] => by simp [need, renderWith]
  | .arr (x :: xs) => by
    have h1 := need_le s hs x
    have h2 := needE_le s hs xs
    simp only [need, renderWith, List.length_cons, List.length_append, List.length_nil]
    omega
  | .obj [] => by simp [need, renderWith]
  | .obj ((k, v) :: kvs) => by
    have h1 := need_le s hs v
    have h2 := needF_le s hs kvs
    simp only [need, renderWith, List.length_cons, List.length_append, List.length_nil]
    omega
theorem needE_le (s : Sep) (hs : SepOk s) : ∀ (xs : List JT), needE xs ≤ (renderElems s xs).length + 1
  | [] => by simp [needE, renderElems]
  | x :: xs => by
    have h1 := need_le s hs x
    have h2 := needE_le s hs xs
    obtain ⟨a, ha⟩ := hs.item
    simp only [needE, renderElems, List.length_append, ha, List.length_cons]
    omega
theorem needF_le (s : Sep) (hs : SepOk s) : ∀ (kvs : List (List Char × JT)), needF kvs ≤ (renderFields s kvs).length + 1
  | [] => by simp [needF, renderFields]
  | (k, v) :: kvs => by
    have h1 := need_le s hs v
    have h2 := needF_le s hs kvs
    obtain ⟨a, ha⟩ := hs.item
    simp only [needF, renderFields, List.length_append, List.length_cons, ha]
    omega
end

/-- **reading back what was written** -/
theorem parse_render (s : Sep) (hs : SepOk s) (j : JT) (hk : keysOk j = true) : parse (renderWith s j) = some j := by
  have h := parseVal_render s hs j [] ((renderWith s j).length + 1) hk rfl (by have := need_le s hs j; omega)
  simp only [List.append_nil] at h
  simp [parse, h]

end Bp.JsonText
