import BpModel.Proofs.Bits
import BpModel.Proofs.Helpers
/-!
# The Python leaf decoder reads exactly wire bits `[i, i+n)`

`procBaseDec` for the three leaf kinds of the generated `bp_set_byte`:
unsigned (`|=` of `int(b) << lshift`), signed (`|=` of `bp.intW(...)`, then `bp_process_int`) and
bool (`= bool(b)`), starting from a zero field.
-/
namespace Bp.PyRt
open Bp

theorem getElem_testBit (s : List Nat) (hs : AllBytes s) (idx : Nat) (hi : idx < s.length) (q : Nat) :
    s[idx].testBit q = (decide (q < 8) && (bytesToNat s).testBit (8 * idx + q)) := by
  by_cases hq : q < 8
  · rw [bytesToNat_testBit s hs]
    have e1 : (8 * idx + q) / 8 = idx := by omega
    have e2 : (8 * idx + q) % 8 = q := by omega
    simp [hq, e1, e2, List.getD_eq_getElem?_getD, List.getElem?_eq_getElem hi]
  · have hb : s[idx] < 2^8 := hs _ (List.getElem_mem hi)
    have : s[idx].testBit q = false :=
      Nat.testBit_lt_two_pow (Nat.lt_of_lt_of_le hb (Nat.pow_le_pow_right (by decide) (by omega)))
    simp [hq, this]

/-- the value handed to `bp_set_byte`, shifted to its place in the field -/
theorem decD_testBit (s : List Nat) (hs : AllBytes s) (i j c k : Nat) (hi : i / 8 < s.length)
    (_hc1 : c ≤ 8 - j % 8) (hc2 : c ≤ 8 - i % 8) :
    ((smartShift s[i / 8] (((i % 8 : Nat) : Int) - ((j % 8 : Nat) : Int)) &&& getMask (j % 8) c)
        <<< (j / 8 * 8)).testBit k =
      (decide (j ≤ k) && decide (k < j + c) && (bytesToNat s).testBit (i + (k - j))) := by
  simp only [Nat.testBit_shiftLeft, Nat.testBit_and, smartShift_testBit, getMask_testBit,
    getElem_testBit s hs (i / 8) hi]
  by_cases h1 : j ≤ k
  · by_cases h2 : k < j + c
    · have e1 : k ≥ j / 8 * 8 := by omega
      have e2 : j % 8 ≤ k - j / 8 * 8 := by omega
      have e3 : k - j / 8 * 8 < j % 8 + c := by omega
      have e4 : j % 8 ≤ k - j / 8 * 8 + i % 8 := by omega
      have e5 : k - j / 8 * 8 + i % 8 - j % 8 < 8 := by omega
      have e6 : 8 * (i / 8) + (k - j / 8 * 8 + i % 8 - j % 8) = i + (k - j) := by omega
      simp [h1, h2, e1, e2, e3, e4, e5, e6]
    · have : ¬ (k ≥ j / 8 * 8 ∧ j % 8 ≤ k - j / 8 * 8 ∧ k - j / 8 * 8 < j % 8 + c) := by omega
      simp [h1, h2]
      intro a b c d; omega
  · simp [h1]
    intro a b c d; omega

theorem decD_lt (b i j c : Nat) (hc1 : c ≤ 8 - j % 8) :
    (smartShift b (((i % 8 : Nat) : Int) - ((j % 8 : Nat) : Int)) &&& getMask (j % 8) c) < 256 :=
  Nat.lt_of_le_of_lt Nat.and_le_right (getMask_lt _ _ (by omega))

/-! ## unsigned leaves -/

theorem procBaseDec_uint (n : Nat) (s : List Nat) (hs : AllBytes s) (i0 : Nat) :
    ∀ (fuel : Nat) (cur : Int) (j : Nat), n - j ≤ fuel → j ≤ n → i0 + n ≤ 8 * s.length →
    ∃ cur', procBaseDec n .uint s fuel cur (i0 + j) j = .ok (cur', i0 + n) ∧
      ∀ k, PyInt.tb cur' k =
        (PyInt.tb cur k || (decide (j ≤ k) && decide (k < n) && (bytesToNat s).testBit (i0 + k))) := by
  intro fuel
  induction fuel with
  | zero =>
    intro cur j hf hj _
    have : j = n := by omega
    subst this
    refine ⟨cur, by simp [procBaseDec], ?_⟩
    intro k; simp; intro h1 h2; omega
  | succ fuel ih =>
    intro cur j hf hj hroom
    unfold procBaseDec
    by_cases hlt : j < n
    · simp only [hlt, if_true]
      have hc0 : nbitsToCopy (i0 + j) j n ≤ n - j := by unfold nbitsToCopy; omega
      have hcpos : 0 < nbitsToCopy (i0 + j) j n := by unfold nbitsToCopy; omega
      have hc1 : nbitsToCopy (i0 + j) j n ≤ 8 - j % 8 := by unfold nbitsToCopy; omega
      have hc2 : nbitsToCopy (i0 + j) j n ≤ 8 - (i0 + j) % 8 := by unfold nbitsToCopy; omega
      generalize nbitsToCopy (i0 + j) j n = c at *
      have hi : (i0 + j) / 8 < s.length := by omega
      have hget : s[(i0 + j) / 8]? = some s[(i0 + j) / 8] := List.getElem?_eq_getElem hi
      simp only [decChunk, hget, setByte]
      obtain ⟨cur', e, b⟩ := ih (PyInt.or cur (PyInt.shl
        ((smartShift s[(i0 + j) / 8] ((((i0 + j) % 8 : Nat) : Int) - ((j % 8 : Nat) : Int)) &&&
          getMask (j % 8) c : Nat) : Int) (j / 8 * 8))) (j + c) (by omega) (by omega) hroom
      have e' : i0 + j + c = i0 + (j + c) := by omega
      rw [e']
      refine ⟨cur', e, ?_⟩
      intro k
      rw [b k, PyInt.tb_or, PyInt.shl_ofNat, PyInt.tb_ofNat, decD_testBit s hs (i0 + j) j c k hi hc1 hc2]
      by_cases hb : PyInt.tb cur k
      · simp [hb]
      · simp only [hb, Bool.false_or]
        by_cases h1 : j ≤ k
        · by_cases h2 : k < j + c
          · have : ¬ (j + c ≤ k) := by omega
            have h3 : k < n := by omega
            have e : i0 + j + (k - j) = i0 + k := by omega
            simp [h1, h2, this, h3, e]
          · have h4 : j + c ≤ k := by omega
            simp [h1, h2, h4]
        · have : ¬ (j + c ≤ k) := by omega
          simp [h1, this]
    · have : j = n := by omega
      subst this
      simp only [hlt, if_false]
      refine ⟨cur, rfl, ?_⟩
      intro k; simp; intro h1 h2; omega

theorem readNat_testBit (W i n k : Nat) :
    (readNat W i n).testBit k = (decide (k < n) && W.testBit (i + k)) := by
  unfold readNat
  rw [Nat.testBit_mod_two_pow, Nat.testBit_shiftRight]

theorem readNat_lt (W i n : Nat) : readNat W i n < 2^n := Nat.mod_lt _ (Nat.pow_pos (by decide))

/-- an unsigned leaf decoded into a zero field is the wire value -/
theorem decLeaf_uint (n : Nat) (s : List Nat) (hs : AllBytes s) (i : Nat) (hroom : i + n ≤ 8 * s.length) :
    decLeaf n .uint 0 s i = .ok ((readNat (bytesToNat s) i n : Nat), i + n) := by
  obtain ⟨cur', e, b⟩ := procBaseDec_uint n s hs i n 0 0 (by omega) (by omega) hroom
  unfold decLeaf
  simp only [Nat.add_zero] at e
  rw [e]
  simp only
  congr 2
  apply PyInt.eq_of_tb_eq
  intro k
  have h0 : PyInt.tb 0 k = false := by show (0:Nat).testBit k = false; simp
  rw [b k, PyInt.tb_ofNat, readNat_testBit, h0]
  simp

/-! ## bool leaves -/

theorem decLeaf_bool (s : List Nat) (hs : AllBytes s) (cur : Int) (i : Nat) (hroom : i + 1 ≤ 8 * s.length) :
    decLeaf 1 .bool cur s i = .ok ((readNat (bytesToNat s) i 1 : Nat), i + 1) := by
  have hi : i / 8 < s.length := by omega
  have hget : s[i / 8]? = some s[i / 8] := List.getElem?_eq_getElem hi
  have hc : nbitsToCopy i 0 1 = 1 := by unfold nbitsToCopy; omega
  unfold decLeaf
  simp only [procBaseDec, hc, decChunk, hget, setByte, Nat.zero_lt_one, if_true]
  -- the chunk value is the single wire bit
  have hd := fun k => decD_testBit s hs i 0 1 k hi (by omega) (by omega)
  simp only [Nat.zero_div, Nat.zero_mul, Nat.shiftLeft_zero, Nat.zero_add] at hd
  generalize (smartShift s[i / 8] (((i % 8 : Nat) : Int) - ((0 % 8 : Nat) : Int)) &&& getMask (0 % 8) 1) = d at hd ⊢
  have hval : d = readNat (bytesToNat s) i 1 := by
    apply Nat.eq_of_testBit_eq
    intro k
    rw [hd k, readNat_testBit]
    by_cases hk : k < 1
    · have : k = 0 := by omega
      subst this; simp
    · simp [hk]
  have h01 : readNat (bytesToNat s) i 1 < 2 := readNat_lt _ _ 1
  rw [hval]
  by_cases hz : readNat (bytesToNat s) i 1 = 0
  · simp [hz]
  · have : readNat (bytesToNat s) i 1 = 1 := by omega
    simp [this]

end Bp.PyRt
