import BpModel.Model.Front
/-!
Import resolution terminates: the answer of `checkFile` does not depend on the fuel once the fuel
exceeds the number of files that are not yet being parsed — every nested import either hits the
cyclic-import check or removes one file name from that set.
-/
namespace Bp.Front

/-- file names not currently being parsed -/
def avail (files : List File) (parsing : List String) : Nat :=
  ((files.map (·.name)).filter (fun n => !parsing.contains n)).length

theorem filter_le {α} (p q : α → Bool) (hpq : ∀ n, q n = true → p n = true) : ∀ (L : List α),
    (L.filter q).length ≤ (L.filter p).length
  | [] => by simp
  | y :: L => by
    have ih := filter_le p q hpq L
    simp only [List.filter_cons]
    by_cases hq : q y = true
    · simp only [hq, hpq y hq, if_true, List.length_cons]; omega
    · by_cases hp : p y = true
      · simp only [hq, hp, if_true, List.length_cons]; simp; omega
      · simp only [hq, hp]; simpa using ih

theorem filter_lt {α} (p q : α → Bool) (hpq : ∀ n, q n = true → p n = true) (x : α) (hpx : p x = true) (hqx : q x = false) :
    ∀ (L : List α), x ∈ L → (L.filter q).length < (L.filter p).length
  | [], h => by simp at h
  | y :: L, h => by
    simp only [List.filter_cons]
    rcases List.mem_cons.mp h with e | e
    · subst e
      have := filter_le p q hpq L
      simp only [hpx, hqx, if_true, List.length_cons]; simp; omega
    · have ih := filter_lt p q hpq x hpx hqx L e
      by_cases hq : q y = true
      · simp only [hq, hpq y hq, if_true, List.length_cons]; omega
      · by_cases hp : p y = true
        · simp only [hq, hp, if_true, List.length_cons]; simp; omega
        · simp only [hq, hp]; simpa using ih

theorem filter_lt_of_mem (L : List String) (x : String) (parsing : List String) (h : x ∈ L) (hx : parsing.contains x = false) :
    (L.filter (fun n => !(x :: parsing).contains n)).length < (L.filter (fun n => !parsing.contains n)).length := by
  apply filter_lt (fun n => !parsing.contains n) (fun n => !(x :: parsing).contains n) ?_ x ?_ ?_ L h
  · intro n hn
    simp only [List.contains_cons, Bool.not_eq_true', Bool.or_eq_false_iff] at hn
    have := hn.2
    simp only [List.contains_eq_mem, decide_eq_false_iff_not] at this
    simpa using this
  · simp only [List.contains_eq_mem, decide_eq_false_iff_not] at hx
    simpa using hx
  · simp

theorem find_name_mem (files : List File) (fname : String) (f : File) (h : files.find? (·.name == fname) = some f) :
    fname ∈ files.map (·.name) := by
  have hm := List.mem_of_find?_eq_some h
  have hp := List.find?_some h
  have : f.name = fname := by simpa using hp
  exact List.mem_map.mpr ⟨f, hm, this⟩

/-- one more unit of fuel changes nothing once the fuel exceeds the number of files not yet being parsed -/
theorem checkFile_stable (files : List File) (trad : Bool) : ∀ (f : Nat) (parsing : List String) (fname : String) (c : Ctx) (line : Nat),
    avail files parsing + 1 ≤ f → checkFile files trad (f + 1) parsing fname c line = checkFile files trad f parsing fname c line
  | 0, _, _, _, _, h => by omega
  | f+1, parsing, fname, c, line, h => by
    rw [checkFile, checkFile]
    by_cases hc : parsing.contains fname = true
    · simp only [hc, if_true]
    · simp only [hc, Bool.false_eq_true, if_false]
      cases hf : files.find? (·.name == fname) with
      | none => rfl
      | some fl =>
        simp only
        have hlt := filter_lt_of_mem (files.map (·.name)) fname parsing (find_name_mem files fname fl hf) (by simpa using hc)
        have heq : (fun ci l file' => checkFile files trad (f + 1) (fname :: parsing) file' ci l) =
            (fun ci l file' => checkFile files trad f (fname :: parsing) file' ci l) := by
          funext ci l file'
          exact checkFile_stable files trad f (fname :: parsing) file' ci l (by unfold avail at h ⊢; omega)
        rw [heq]

theorem checkFile_fuel (files : List File) (trad : Bool) (main : String) (c : Ctx) (line : Nat) : ∀ (k : Nat),
    checkFile files trad (files.length + 1 + k) [] main c line = checkFile files trad (files.length + 1) [] main c line
  | 0 => rfl
  | k+1 => by
    rw [← checkFile_fuel files trad main c line k]
    exact checkFile_stable files trad (files.length + 1 + k) [] main c line (by
      have : avail files [] ≤ files.length := by
        unfold avail
        exact Nat.le_trans (List.length_filter_le _ _) (by simp)
      omega)

end Bp.Front
