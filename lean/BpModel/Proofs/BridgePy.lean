import BpModel.Gen.PyHelpers
import BpModel.Model.Helpers
import BpModel.Model.PyRt
/-!
# Bridge (T): the helpers as `bp.py` says them now = the clean definitions used in the proofs

`Gen/PyHelpers.lean` is regenerated from /repo on every run.  These lemmas are re-checked
against it: finite domains by `decide +kernel` over the *complete* domain the runtime uses,
unbounded ones by `omega`.  A semantics-preserving rewrite of the Python source keeps them
true; a semantics-changing one makes this file fail to build.
-/
namespace Bp.Bridge
open Bp Bp.Gen.PyHelpers

/-- `get_mask` on the whole domain the runtime uses: bit position `k < 8`, count `c ≤ 8` -/
theorem get_mask_eq : ∀ k : Fin 8, ∀ c : Fin 9, get_mask k.val c.val = (getMask k.val c.val : Nat) := by
  decide +kernel

/-- `smart_shift` on bytes and shift distances `-7 … 7` -/
theorem smart_shift_eq : ∀ n : Fin 256, ∀ k : Fin 15,
    smart_shift n.val ((k.val : Int) - 7) = (smartShift n.val ((k.val : Int) - 7) : Nat) := by
  decide +kernel

theorem get_nbits_to_copy_eq (i j n : Nat) (h : j ≤ n) :
    get_nbits_to_copy i j n = (nbitsToCopy i j n : Nat) := by
  simp only [get_nbits_to_copy, nbitsToCopy, PyOp.sub, PyOp.mod,
    Int.fmod_eq_emod_of_nonneg _ (by decide : (0:Int) ≤ 8)]
  omega

theorem int8_eq (v : Int) : int8 v = PyRt.intW 8 v := by
  simp only [int8, PyRt.intW, PyOp.sub]; split <;> split <;> omega
theorem int16_eq (v : Int) : int16 v = PyRt.intW 16 v := by
  simp only [int16, PyRt.intW, PyOp.sub]; split <;> split <;> omega
theorem int32_eq (v : Int) : int32 v = PyRt.intW 32 v := by
  simp only [int32, PyRt.intW, PyOp.sub]; split <;> split <;> omega
theorem int64_eq (v : Int) : int64 v = PyRt.intW 64 v := by
  simp only [int64, PyRt.intW, PyOp.sub]; split <;> split <;> omega

theorem flags : FLAG_BOOL = 1 ∧ FLAG_INT = 2 ∧ FLAG_UINT = 3 ∧ FLAG_BYTE = 4 ∧ FLAG_ENUM = 5 ∧
    FLAG_ALIAS = 6 ∧ FLAG_ARRAY = 7 ∧ FLAG_MESSAGE = 8 ∧ FLAG_MESSAGE_FIELD = 9 := by decide

end Bp.Bridge
