import BpModel.Gen.Tables
import BpModel.Model.Lit
import BpModel.Model.Expr
import BpModel.Model.Schema
/-!
# Bridge (T): tables as the compiler sources read now = the model's tables
-/
namespace Bp.Bridge
open Bp

/-- the literal formatter's escape table is exactly the model's `escChar` -/
theorem emit_escapes_eq : Gen.Tables.emit_escapes.all (fun p => Lit.escChar p.1 == p.2) = true ∧
    Gen.Tables.emit_escapes.map (·.1) = ['\\', '"', '\n', '\t', '\r'] := by decide

/-- everything the lexer can produce from an escape sequence is a character the formatter either
escapes or may leave verbatim; the lexer's table (escape letter ↦ character) -/
theorem lexer_escapes_eq :
    Gen.Tables.lexer_escapes = [('t', '\t'), ('r', '\r'), ('n', '\n'), ('\\', '\\'), ('\'', '\''), ('"', '"')] := by
  decide

/-- PLY's precedence rows: `+ -` below `* /`, both left associative — the model's `Op.prec` -/
theorem precedence_eq :
    Gen.Tables.precedence = [("left", ["PLUS", "MINUS"]), ("left", ["TIMES", "DIVIDE"])] ∧
    Expr.Op.prec .add = 1 ∧ Expr.Op.prec .sub = 1 ∧ Expr.Op.prec .mul = 2 ∧ Expr.Op.prec .div = 2 := by
  decide

/-- the numeric limits of the validators are the ones `Ty.wf` uses -/
theorem limits_eq : Gen.Tables.int_nbits_max = 64 ∧ Gen.Tables.array_cap_bound = 65536 ∧
    Gen.Tables.field_number_bound = 256 ∧ Gen.Tables.message_nbits_max = 65535 := by decide

end Bp.Bridge
