import BpModel.Proofs.CEncTree
import BpModel.Proofs.RoundTrip
/-!
# The C decoder refines the prefix-honouring specification decoder (both builds, batch path too)

`cdec_refines`: whenever `Spec.dec` succeeds on the wire (all reads inside the buffer), the
generated `Decode<Msg>` run on a zeroed struct leaves exactly those values in the cells
(signed ones sign-extended to the storage width) and the same cursor; no `.oob`.
-/
namespace Bp.CRt
open Bp PyRt

theorem cdecAhead_ok (be : Bool) (s : List Nat) (hs : AllBytes s) (i : Nat) (hroom : i + 16 ≤ 8 * s.length) :
    decAhead be s i = .ok (readNat (bytesToNat s) i 16, i + 16) := by
  unfold decAhead
  rw [(decLeafVal_unsigned be 16 (by decide) s hs i hroom).1]
  simp

theorem cdecArr_refines (f : Nat → Except Exc (Val × Nat)) (d : Nat → Option (Val × Nat))
    (h : ∀ j r, d j = some r → f j = .ok r) :
    ∀ (k i : Nat) (r : List Val × Nat), Bp.decArrWith d k i = some r → CRt.decArrWith f k i = .ok r
  | 0, i, r, hd => by
    simp only [Bp.decArrWith] at hd
    injection hd with hd
    simp [CRt.decArrWith, ← hd]
  | k+1, i, r, hd => by
    simp only [Bp.decArrWith] at hd
    cases h1 : d i with
    | none => simp [h1] at hd
    | some p =>
      obtain ⟨v, i1⟩ := p
      simp only [h1] at hd
      cases h2 : Bp.decArrWith d k i1 with
      | none => simp [h2] at hd
      | some q =>
        obtain ⟨vs, i2⟩ := q
        simp only [h2] at hd
        injection hd with hd
        have e1 := h i (v, i1) h1
        have e2 := cdecArr_refines f d h k i1 (vs, i2) h2
        simp only [CRt.decArrWith, e1, e2, ← hd]

/-! ### batch path -/

/-- the value the specification decodes for an integer-like element from its `n` wire bits -/
def leafVal (signed : Bool) (n u : Nat) : Val := .int (if signed then sgn u n else (u : Int))

theorem spec_dec_intLike (e : Ty) (n : Nat) (h : intLikeBits e = some n) (W L j : Nat) :
    Spec.dec e W L j = (readB W L j n).map fun u => (leafVal (isSignedLike e) n u, j + n) := by
  cases e with
  | bool => simp [intLikeBits] at h
  | byte => simp only [intLikeBits, Option.some.injEq] at h; subst h; simp [Spec.dec, leafVal, isSignedLike]
  | uint m => simp only [intLikeBits, Option.some.injEq] at h; subst h; simp [Spec.dec, leafVal, isSignedLike]
  | int m => simp only [intLikeBits, Option.some.injEq] at h; subst h; simp [Spec.dec, leafVal, isSignedLike]
  | enum m ms => simp only [intLikeBits, Option.some.injEq] at h; subst h; simp [Spec.dec, leafVal, isSignedLike]
  | alias t =>
    cases t with
    | byte => simp only [intLikeBits, Option.some.injEq] at h; subst h; simp [Spec.dec, leafVal, isSignedLike]
    | uint m => simp only [intLikeBits, Option.some.injEq] at h; subst h; simp [Spec.dec, leafVal, isSignedLike]
    | int m => simp only [intLikeBits, Option.some.injEq] at h; subst h; simp [Spec.dec, leafVal, isSignedLike]
    | bool => simp [intLikeBits] at h
    | enum _ _ => simp [intLikeBits] at h
    | alias _ => simp [intLikeBits] at h
    | array _ _ _ => simp [intLikeBits] at h
    | msg _ _ => simp [intLikeBits] at h
  | array _ _ _ => simp [intLikeBits] at h
  | msg _ _ => simp [intLikeBits] at h

/-- what `Spec.dec` yields for an array of `cap` integer-like elements -/
theorem spec_arr_intLike (signed : Bool) (n W L : Nat) (d : Nat → Option (Val × Nat))
    (hd : ∀ j, d j = (readB W L j n).map fun u => (leafVal signed n u, j + n)) :
    ∀ (cap j : Nat) (r : List Val × Nat), Bp.decArrWith d cap j = some r →
      (cap = 0 ∨ j + n * cap ≤ L) ∧
      r = ((List.range cap).map (fun k => leafVal signed n (readNat W (j + n * k) n)), j + n * cap)
  | 0, j, r, h => by
    simp only [Bp.decArrWith] at h
    injection h with h
    simp [← h]
  | cap+1, j, r, h => by
    simp only [Bp.decArrWith, hd j] at h
    cases h1 : readB W L j n with
    | none => simp [h1] at h
    | some u =>
      obtain ⟨hroom, rfl⟩ := readB_some h1
      simp only [h1, Option.map_some] at h
      cases h2 : Bp.decArrWith d cap (j + n) with
      | none => simp [h2] at h
      | some q =>
        obtain ⟨vs, i2⟩ := q
        simp only [h2] at h
        injection h with h
        obtain ⟨hb, hr⟩ := spec_arr_intLike signed n W L d hd cap (j + n) (vs, i2) h2
        injection hr with hr1 hr2
        refine ⟨Or.inr ?_, ?_⟩
        · rcases hb with hb | hb
          · subst hb; omega
          · rw [Nat.mul_add]; omega
        · rw [← h, hr1, hr2]
          have e1 : j + n + n * cap = j + n * (cap + 1) := by rw [Nat.mul_add]; omega
          rw [e1]
          congr 1
          rw [List.range_succ_eq_map, List.map_cons, List.map_map]
          simp only [Nat.mul_zero, Nat.add_zero]
          congr 1
          apply List.map_congr_left
          intro k _
          simp only [Function.comp]
          have : j + n + n * k = j + n * (k + 1) := by rw [Nat.mul_add]; omega
          rw [this]

theorem decBatch_ok (signed : Bool) (n : Nat) (hstd : n = 8 ∨ n = 16 ∨ n = 32 ∨ n = 64) (cap : Nat) (s : List Nat)
    (hs : AllBytes s) (j : Nat) (hroom : j + n * cap ≤ 8 * s.length) :
    decBatch signed n cap s j =
      .ok ((List.range cap).map (fun k => leafVal signed n (readNat (bytesToNat s) (j + n * k) n)), j + n * cap) := by
  have hn := storageSize_std n hstd
  have hn1 : 1 ≤ n := by omega
  have hz0 : ∀ p, 0 ≤ p → (0:Nat).testBit p = false := by intro p _; simp
  obtain ⟨hw, hr, hb⟩ := copyBits_spec false (n * cap) 0 (bytesToNat s) 0 j hz0
  have hD : (copyBits false (n * cap) 0 (bytesToNat s) 0 j).D = readNat (bytesToNat s) j (n * cap) := by
    apply Nat.eq_of_testBit_eq
    intro p
    rw [hb p, readNat_testBit]; simp
  have hlenz : (zeros (storageSize n * cap)).length = storageSize n * cap := by simp [zeros]
  have hbits : n * cap = 8 * (storageSize n * cap) := by rw [← Nat.mul_assoc, ← hn]
  unfold decBatch
  simp only [decBase, Bool.false_eq_true, if_false, bytesToNat_zeros, hlenz, hD]
  have h1 : (copyBits false (n * cap) 0 (bytesToNat s) 0 j).rhi ≤ s.length := by omega
  have h2 : (copyBits false (n * cap) 0 (bytesToNat s) 0 j).whi ≤ storageSize n * cap := by omega
  simp only [h1, h2, and_self, if_true]
  congr 2
  apply List.map_congr_left
  intro k hk
  have hk : k < cap := by simpa using hk
  have hlt : readNat (bytesToNat s) j (n * cap) < 2^(8 * (storageSize n * cap)) := by
    rw [← hbits]; exact readNat_lt _ _ _
  have hu : rd (bytesToNat (natToBytes (storageSize n * cap) (readNat (bytesToNat s) j (n * cap))))
      (storageSize n * k) (storageSize n) = readNat (bytesToNat s) (j + n * k) n := by
    rw [bytesToNat_natToBytes, Nat.mod_eq_of_lt hlt]
    apply Nat.eq_of_testBit_eq
    intro q
    rw [rd_testBit, readNat_testBit, readNat_testBit, ← hn]
    by_cases hq : q < n
    · have e1 : 8 * (storageSize n * k) + q < n * cap := by
        have : 8 * (storageSize n * k) = n * k := by rw [← Nat.mul_assoc, ← hn]
        rw [this]
        have : n * k + n ≤ n * cap := by rw [← Nat.mul_succ]; exact Nat.mul_le_mul_left _ hk
        omega
      have e2 : j + (8 * (storageSize n * k) + q) = j + n * k + q := by
        have : 8 * (storageSize n * k) = n * k := by rw [← Nat.mul_assoc, ← hn]
        omega
      simp [hq, e1, e2]
    · simp [hq]
  simp only [hu, leafVal]
  cases signed with
  | false => simp
  | true =>
    simp only [if_true]
    rw [sgn_signFix _ _ _ hn1 (Nat.le_of_eq hn) (readNat_lt _ _ _) (fun _ => hn)]

mutual
theorem cdec_refines (be : Bool) : ∀ (t : Ty) (s : List Nat) (i : Nat) (r : Val × Nat), AllBytes s →
    t.wf = true → Spec.dec t (bytesToNat s) (8 * s.length) i = some r → dec be t s i = .ok r
  | .bool, s, i, r, hs, _, hd => by
    simp only [Spec.dec] at hd
    obtain ⟨hroom, hr⟩ := readB_map_some hd
    simp [dec, (decLeafVal_unsigned be 1 (by decide) s hs i hroom).1, hr, Except.map]
  | .byte, s, i, r, hs, _, hd => by
    simp only [Spec.dec] at hd
    obtain ⟨hroom, hr⟩ := readB_map_some hd
    simp [dec, (decLeafVal_unsigned be 8 (by decide) s hs i hroom).1, hr, Except.map]
  | .uint n, s, i, r, hs, hwf, hd => by
    simp only [Spec.dec] at hd
    obtain ⟨hroom, hr⟩ := readB_map_some hd
    simp only [Ty.wf, Bool.and_eq_true, decide_eq_true_eq] at hwf
    simp [dec, (decLeafVal_unsigned be n hwf.2 s hs i hroom).1, hr, Except.map]
  | .int n, s, i, r, hs, hwf, hd => by
    simp only [Spec.dec] at hd
    obtain ⟨hroom, hr⟩ := readB_map_some hd
    simp only [Ty.wf, Bool.and_eq_true, decide_eq_true_eq] at hwf
    simp [dec, decLeafVal_signed be n hwf.1 hwf.2 s hs i hroom, hr, Except.map]
  | .enum n ms, s, i, r, hs, hwf, hd => by
    simp only [Spec.dec] at hd
    obtain ⟨hroom, hr⟩ := readB_map_some hd
    simp only [Ty.wf, Bool.and_eq_true, decide_eq_true_eq] at hwf
    simp [dec, (decLeafVal_unsigned be n hwf.1.1.2 s hs i hroom).1, hr, Except.map]
  | .alias t, s, i, r, hs, hwf, hd => by
    simp only [Ty.wf, Bool.and_eq_true] at hwf
    have := cdec_refines be t s i r hs hwf.2 (by simpa [Spec.dec] using hd)
    simpa [dec] using this
  | .array ext cap e, s, i, r, hs, hwf, hd => by
    simp only [Ty.wf, Bool.and_eq_true, decide_eq_true_eq] at hwf
    obtain ⟨⟨⟨hc1, _⟩, _⟩, hwfe⟩ := hwf
    have ih : ∀ j r, Spec.dec e (bytesToNat s) (8 * s.length) j = some r →
        (fun j => dec be e s j) j = .ok r := fun j r h => cdec_refines be e s j r hs hwfe h
    -- the element loop / batch copy agrees with the specification's element decoding
    have hbody : ∀ (j : Nat) (q : List Val × Nat),
        Bp.decArrWith (Spec.dec e (bytesToNat s) (8 * s.length)) cap j = some q →
        (if useBatch be e then decBatch (isSignedLike e) e.nbits cap s j
          else CRt.decArrWith (fun j => dec be e s j) cap j) = .ok q := by
      intro j q hq
      by_cases hbatch : useBatch be e = true
      · simp only [hbatch, if_true]
        simp only [useBatch, Bool.and_eq_true, Bool.not_eq_true'] at hbatch
        obtain ⟨_, hb2⟩ := hbatch
        cases hil : intLikeBits e with
        | none => simp [hil] at hb2
        | some n =>
          simp only [hil, Bool.or_eq_true, beq_iff_eq] at hb2
          have hstd : n = 8 ∨ n = 16 ∨ n = 32 ∨ n = 64 := by omega
          have hen : e.nbits = n := nbits_intLike e n hil
          obtain ⟨hb, hr⟩ := spec_arr_intLike (isSignedLike e) n (bytesToNat s) (8 * s.length) _
            (fun j => spec_dec_intLike e n hil _ _ j) cap j q hq
          have hroom : j + n * cap ≤ 8 * s.length := by
            rcases hb with hb | hb
            · omega
            · exact hb
          rw [hen, decBatch_ok (isSignedLike e) n hstd cap s hs j hroom, hr]
      · simp only [hbatch, Bool.false_eq_true, if_false]
        exact cdecArr_refines (fun j => dec be e s j) _ ih cap j q hq
    cases ext with
    | true =>
      simp only [Spec.dec, if_true] at hd
      cases h1 : readB (bytesToNat s) (8 * s.length) i 16 with
      | none => simp [h1] at hd
      | some ahead =>
        obtain ⟨hroom, rfl⟩ := readB_some h1
        simp only [h1] at hd
        cases h2 : Bp.decArrWith (Spec.dec e (bytesToNat s) (8 * s.length)) cap (i + 16) with
        | none => simp [h2] at hd
        | some q =>
          obtain ⟨vs, i2⟩ := q
          simp only [h2] at hd
          injection hd with hd
          have e2 := hbody (i + 16) (vs, i2) h2
          simp only [dec, if_true, cdecAhead_ok be s hs i hroom, e2, ← hd]
    | false =>
      simp only [Spec.dec, Bool.false_eq_true, if_false] at hd
      cases h2 : Bp.decArrWith (Spec.dec e (bytesToNat s) (8 * s.length)) cap i with
      | none => simp [h2] at hd
      | some q =>
        obtain ⟨vs, i2⟩ := q
        simp only [h2] at hd
        injection hd with hd
        have e2 := hbody i (vs, i2) h2
        simp only [dec, Bool.false_eq_true, if_false, e2, ← hd]
  | .msg ext fs, s, i, r, hs, hwf, hd => by
    simp only [Ty.wf, Bool.and_eq_true] at hwf
    obtain ⟨_, hwff⟩ := hwf
    cases ext with
    | true =>
      simp only [Spec.dec, if_true] at hd
      cases h1 : readB (bytesToNat s) (8 * s.length) i 16 with
      | none => simp [h1] at hd
      | some ahead =>
        obtain ⟨hroom, rfl⟩ := readB_some h1
        simp only [h1] at hd
        cases h2 : Spec.decFields fs (bytesToNat s) (8 * s.length) (i + 16) with
        | none => simp [h2] at hd
        | some q =>
          obtain ⟨vs, i2⟩ := q
          simp only [h2] at hd
          injection hd with hd
          have e2 := cdecFields_refines be fs s (i + 16) (vs, i2) hs hwff h2
          simp only [dec, if_true, cdecAhead_ok be s hs i hroom, e2, ← hd]
    | false =>
      simp only [Spec.dec, Bool.false_eq_true, if_false] at hd
      cases h2 : Spec.decFields fs (bytesToNat s) (8 * s.length) i with
      | none => simp [h2] at hd
      | some q =>
        obtain ⟨vs, i2⟩ := q
        simp only [h2] at hd
        injection hd with hd
        have e2 := cdecFields_refines be fs s i (vs, i2) hs hwff h2
        simp only [dec, Bool.false_eq_true, if_false, e2, ← hd]
theorem cdecFields_refines (be : Bool) : ∀ (fs : List (Nat × Ty)) (s : List Nat) (i : Nat) (r : List Val × Nat),
    AllBytes s → wfFields fs = true → Spec.decFields fs (bytesToNat s) (8 * s.length) i = some r →
    decFields be fs s i = .ok r
  | [], s, i, r, _, _, hd => by
    simp only [Spec.decFields] at hd
    injection hd with hd
    simp [decFields, ← hd]
  | (_, t) :: fs, s, i, r, hs, hwf, hd => by
    simp only [wfFields, Bool.and_eq_true] at hwf
    simp only [Spec.decFields] at hd
    cases h1 : Spec.dec t (bytesToNat s) (8 * s.length) i with
    | none => simp [h1] at hd
    | some p =>
      obtain ⟨v, i1⟩ := p
      simp only [h1] at hd
      cases h2 : Spec.decFields fs (bytesToNat s) (8 * s.length) i1 with
      | none => simp [h2] at hd
      | some q =>
        obtain ⟨vs, i2⟩ := q
        simp only [h2] at hd
        injection hd with hd
        have e1 := cdec_refines be t s i (v, i1) hs hwf.1 h1
        have e2 := cdecFields_refines be fs s i1 (vs, i2) hs hwf.2 h2
        simp only [decFields, e1, e2, ← hd]
end

/-- the C decoder of the older schema on the newer schema's bytes (C05) — and, with `S1 = S2`,
the plain decode statement of C03 -/
theorem c_dec_evo (be : Bool) {S1 S2 : Ty} (hE : Evo S1 S2) (v2 : Val) (hwf1 : S1.wf = true)
    (hwf2 : S2.wf = true) (hr : inRange S2 v2 = true) :
    decode be S1 (Spec.encode S2 v2) = .ok (Spec.proj S1 v2) := by
  have h1 := spec_dec_evo hE v2 hwf2 hr
  have h2 := cdec_refines be S1 (Spec.encode S2 v2) 0 _ (natToBytes_allBytes _ _) hwf1 h1
  unfold decode
  simp [h2]

end Bp.CRt
