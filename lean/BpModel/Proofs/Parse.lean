import BpModel.Model.Parse
import BpModel.Proofs.Lex
/-!
The grammar model never runs out of fuel: every parsing function hands back a token list that is
no longer than the one it got (strictly shorter where it must consume), so the fuel bounds
(`|tokens| + 1` for scopes and dotted names, `2·|tokens| + 2` for expressions) are never hit.
`Body.hung` is the ghost flag that records a fuel stop; it is proved `false`.
-/
namespace Bp.Parse
open Bp Lex Front

def PendOk (pend : Option LexErr) : Prop := pend ≠ some .outOfFuel

theorem bad_notFuel (pend : Option LexErr) (hp : PendOk pend) (ts : List Token) : (bad pend ts).isFuel = false := by
  unfold bad
  cases ts with
  | cons t r => simp [PErr.isFuel]
  | nil =>
    cases pend with
    | none => simp [PErr.isFuel]
    | some e =>
      cases e <;> simp [PErr.isFuel]
      exact hp rfl

theorem optSemi_len (ts : List Token) : (optSemi ts).length ≤ ts.length := by
  unfold optSemi; split <;> simp

theorem optExt_len (ts : List Token) : (optExt ts).2.length ≤ ts.length := by
  unfold optExt; split <;> simp

/-! ### dotted names -/
theorem dottedRest_len (pend : Option LexErr) : ∀ (f : Nat) (acc : List String) (ts : List Token) (p : List String) (r : List Token),
    dottedRest pend f acc ts = .ok (p, r) → r.length ≤ ts.length
  | 0, _, _, _, _, h => by simp [dottedRest] at h
  | f+1, acc, ts, p, r, h => by
    simp only [dottedRest] at h
    split at h
    · have := dottedRest_len pend f _ _ p r h
      simp; omega
    · simp at h
    · simp at h; obtain ⟨_, rfl⟩ := h; exact Nat.le_refl _

theorem dottedRest_fuel (pend : Option LexErr) (hp : PendOk pend) : ∀ (f : Nat) (acc : List String) (ts : List Token) (e : PErr),
    ts.length < f → dottedRest pend f acc ts = .error e → e.isFuel = false
  | 0, _, _, _, hf, _ => by omega
  | f+1, acc, ts, e, hf, h => by
    simp only [dottedRest] at h
    split at h
    · exact dottedRest_fuel pend hp f _ _ e (by simp at hf; omega) h
    · simp at h; subst h; exact bad_notFuel pend hp _
    · simp at h

theorem dotted_len (pend : Option LexErr) (s : String) (ts : List Token) (p : List String) (r : List Token)
    (h : dotted pend s ts = .ok (p, r)) : r.length ≤ ts.length := dottedRest_len pend _ _ ts p r h

theorem dotted_fuel (pend : Option LexErr) (hp : PendOk pend) (s : String) (ts : List Token) (e : PErr)
    (h : dotted pend s ts = .error e) : e.isFuel = false := dottedRest_fuel pend hp _ _ ts e (by omega) h

/-! ### types -/
theorem singleType_len (pend : Option LexErr) (ts : List Token) (t : TyE) (r : List Token)
    (h : singleType pend ts = .ok (t, r)) : r.length < ts.length := by
  unfold singleType at h
  split at h
  all_goals (try (simp at h; obtain ⟨_, rfl⟩ := h; simp))
  · rename_i s l ts'
    simp only [bind, Except.bind] at h
    split at h
    · simp at h
    · rename_i v hv
      obtain ⟨p, r'⟩ := v
      simp at h; obtain ⟨_, rfl⟩ := h
      have := dotted_len pend s ts' p r' hv
      simp; omega
  · simp at h

theorem singleType_fuel (pend : Option LexErr) (hp : PendOk pend) (ts : List Token) (e : PErr)
    (h : singleType pend ts = .error e) : e.isFuel = false := by
  unfold singleType at h
  split at h
  all_goals (try (simp at h; done))
  · rename_i s l ts'
    simp only [bind, Except.bind] at h
    split at h
    · rename_i e' he
      simp at h; subst h
      exact dotted_fuel pend hp s ts' _ he
    · simp at h
  · simp at h; subst h; exact bad_notFuel pend hp _

theorem type_len (pend : Option LexErr) (ts : List Token) (t : TyE) (r : List Token)
    (h : type_ pend ts = .ok (t, r)) : r.length < ts.length := by
  unfold type_ at h
  simp only [bind, Except.bind] at h
  split at h
  · simp at h
  · rename_i v hv
    obtain ⟨t0, ts1⟩ := v
    have h0 := singleType_len pend ts t0 ts1 hv
    simp only at h
    split at h
    · rename_i l ts2
      split at h
      · simp at h
      · rename_i w hw
        have h3 : w.2.length < ts2.length := by
          split at hw
          · simp at hw; subst hw; simp
          · rename_i s l' r'
            split at hw
            · simp at hw
            · rename_i u hu
              simp at hw; subst hw
              have := dotted_len pend s r' u.1 u.2 hu
              simp; omega
          · simp at hw
        split at h
        · rename_i l4 ts4 heq
          have := optExt_len ts4
          simp at h; obtain ⟨_, rfl⟩ := h
          rw [heq] at h3
          simp at h0 h3 ⊢; omega
        · simp at h
    · simp at h; obtain ⟨_, rfl⟩ := h; exact h0

theorem type_fuel (pend : Option LexErr) (hp : PendOk pend) (ts : List Token) (e : PErr)
    (h : type_ pend ts = .error e) : e.isFuel = false := by
  unfold type_ at h
  simp only [bind, Except.bind] at h
  split at h
  · rename_i e' he
    simp at h; subst h
    exact singleType_fuel pend hp ts _ he
  · rename_i v hv
    split at h
    · rename_i l ts2
      split at h
      · rename_i e' hw
        simp at h; subst h
        split at hw
        · simp at hw
        · rename_i s l' r'
          split at hw
          · rename_i e'' hd
            simp at hw; subst hw
            exact dotted_fuel pend hp s r' _ hd
          · simp at hw
        · simp at hw; subst hw; exact bad_notFuel pend hp _
      · split at h
        · simp at h
        · simp at h; subst h; exact bad_notFuel pend hp _
    · simp at h

/-! ### calculation expressions -/
theorem expr_consumes (pend : Option LexErr) : ∀ (f : Nat),
    (∀ ts e r, exprAtom pend f ts = .ok (e, r) → r.length < ts.length) ∧
    (∀ p ts e r, exprPrec pend f p ts = .ok (e, r) → r.length < ts.length) ∧
    (∀ p l ts e r, exprLoop pend f p l ts = .ok (e, r) → r.length ≤ ts.length)
  | 0 => by simp [exprAtom, exprPrec, exprLoop]
  | f+1 => by
    obtain ⟨ihA, ihX, ihL⟩ := expr_consumes pend f
    refine ⟨?_, ?_, ?_⟩
    · intro ts e r h
      simp only [exprAtom] at h
      split at h
      · simp at h; obtain ⟨_, rfl⟩ := h; simp
      · simp at h; obtain ⟨_, rfl⟩ := h; simp
      · rename_i s l r0
        split at h
        · rename_i p r' hd
          simp at h; obtain ⟨_, rfl⟩ := h
          have := dotted_len pend s r0 p r' hd
          simp; omega
        · simp at h
      · rename_i l r0
        split at h
        · rename_i e0 l' r' hx
          simp at h; obtain ⟨_, rfl⟩ := h
          have := ihX 1 r0 e0 _ hx
          simp at this ⊢; omega
        · simp at h
        · simp at h
      · simp at h
    · intro p ts e r h
      simp only [exprPrec] at h
      split at h
      · rename_i l ts' ha
        have h1 := ihA ts l ts' ha
        have h2 := ihL p l ts' e r h
        omega
      · simp at h
    · intro p l ts e r h
      simp only [exprLoop] at h
      split at h
      · rename_i t r0
        split at h
        · rename_i o ho
          split at h
          · split at h
            · rename_i rhs ts' hx
              have h1 := ihX _ r0 rhs ts' hx
              have h2 := ihL p _ ts' e r h
              simp; omega
            · simp at h
          · simp at h; obtain ⟨_, rfl⟩ := h; simp
        · simp at h; obtain ⟨_, rfl⟩ := h; simp
      · simp at h; obtain ⟨_, rfl⟩ := h; simp

theorem expr_fuel (pend : Option LexErr) (hp : PendOk pend) : ∀ (f : Nat),
    (∀ ts e, 2 * ts.length + 1 ≤ f → exprAtom pend f ts = .error e → e.isFuel = false) ∧
    (∀ p ts e, 2 * ts.length + 2 ≤ f → exprPrec pend f p ts = .error e → e.isFuel = false) ∧
    (∀ p l ts e, 2 * ts.length + 1 ≤ f → exprLoop pend f p l ts = .error e → e.isFuel = false)
  | 0 => by
    refine ⟨fun ts e hf _ => by omega, fun p ts e hf _ => by omega, fun p l ts e hf _ => by omega⟩
  | f+1 => by
    obtain ⟨ihA, ihX, ihL⟩ := expr_fuel pend hp f
    obtain ⟨cA, cX, cL⟩ := expr_consumes pend f
    refine ⟨?_, ?_, ?_⟩
    · intro ts e hf h
      simp only [exprAtom] at h
      split at h
      · simp at h
      · simp at h
      · rename_i s l r0
        split at h
        · simp at h
        · rename_i e' hd
          simp at h; subst h
          exact dotted_fuel pend hp s r0 _ hd
      · rename_i l r0
        split at h
        · simp at h
        · simp at h; subst h; exact bad_notFuel pend hp _
        · rename_i e' hx
          simp at h; subst h
          exact ihX 1 r0 _ (by simp at hf; omega) hx
      · simp at h; subst h; exact bad_notFuel pend hp _
    · intro p ts e hf h
      simp only [exprPrec] at h
      split at h
      · rename_i l ts' ha
        have := cA ts l ts' ha
        exact ihL p l ts' e (by omega) h
      · rename_i e' ha
        simp at h; subst h
        exact ihA ts _ (by omega) ha
    · intro p l ts e hf h
      simp only [exprLoop] at h
      split at h
      · rename_i t r0
        split at h
        · rename_i o ho
          split at h
          · split at h
            · rename_i rhs ts' hx
              have := cX _ r0 rhs ts' hx
              exact ihL p _ ts' e (by simp at hf; omega) h
            · rename_i e' hx
              simp at h; subst h
              exact ihX _ r0 _ (by simp at hf; omega) hx
          · simp at h
        · simp at h
      · simp at h

/-! ### values, fields, simple statements -/
theorem constValue_len (pend : Option LexErr) (ts : List Token) (v : CExpr) (r : List Token)
    (h : constValue pend ts = .ok (v, r)) : r.length < ts.length := by
  unfold constValue at h
  split at h
  · simp at h; obtain ⟨_, rfl⟩ := h; simp
  · simp at h; obtain ⟨_, rfl⟩ := h; simp
  · simp only [bind, Except.bind] at h
    split at h
    · simp at h
    · rename_i w hw
      obtain ⟨e, r'⟩ := w
      have := (expr_consumes pend _).2.1 1 ts e r' hw
      split at h <;> (simp at h; obtain ⟨_, rfl⟩ := h; exact this)

theorem constValue_fuel (pend : Option LexErr) (hp : PendOk pend) (ts : List Token) (e : PErr)
    (h : constValue pend ts = .error e) : e.isFuel = false := by
  unfold constValue at h
  split at h
  · simp at h
  · simp at h
  · simp only [bind, Except.bind] at h
    split at h
    · rename_i e' hw
      simp at h; subst h
      exact (expr_fuel pend hp _).2.1 1 ts _ (Nat.le_refl _) hw
    · rename_i w hw
      split at h <;> simp at h

theorem optionValue_len (pend : Option LexErr) (ts : List Token) (v : CExpr) (r : List Token)
    (h : optionValue pend ts = .ok (v, r)) : r.length < ts.length := by
  unfold optionValue at h
  split at h
  all_goals (try (simp at h; obtain ⟨_, rfl⟩ := h; simp; done))
  · rename_i s l r0
    simp only [bind, Except.bind] at h
    split at h
    · simp at h
    · rename_i w hw
      simp at h; obtain ⟨_, rfl⟩ := h
      have := dotted_len pend s r0 w.1 w.2 hw
      simp; omega
  · simp at h

theorem optionValue_fuel (pend : Option LexErr) (hp : PendOk pend) (ts : List Token) (e : PErr)
    (h : optionValue pend ts = .error e) : e.isFuel = false := by
  unfold optionValue at h
  split at h
  all_goals (try (simp at h; done))
  · rename_i s l r0
    simp only [bind, Except.bind] at h
    split at h
    · rename_i e' hd
      simp at h; subst h
      exact dotted_fuel pend hp s r0 _ hd
    · simp at h
  · simp at h; subst h; exact bad_notFuel pend hp _

theorem expectLit_len (pend : Option LexErr) (c : Char) (ts r : List Token)
    (h : expectLit pend c ts = .ok r) : r.length < ts.length := by
  unfold expectLit at h
  split at h
  · split at h
    · simp at h; subst h; simp
    · simp at h
  · simp at h

theorem expectLit_fuel (pend : Option LexErr) (hp : PendOk pend) (c : Char) (ts : List Token) (e : PErr)
    (h : expectLit pend c ts = .error e) : e.isFuel = false := by
  unfold expectLit at h
  split at h
  · split at h
    · simp at h
    · simp at h; subst h; rfl
  · simp at h; subst h; exact bad_notFuel pend hp _

theorem field_len (pend : Option LexErr) (ts : List Token) (it : Item) (r : List Token)
    (h : field pend ts = .ok (it, r)) : r.length < ts.length := by
  unfold field at h
  simp only [bind, Except.bind] at h
  split at h
  · simp at h
  · rename_i v hv
    have h0 := type_len pend ts v.1 v.2 hv
    split at h
    · simp at h
    · rename_i w hw
      obtain ⟨nm, ln, ts2⟩ := w
      have h1 : ts2.length < v.2.length := by
        split at hw
        · rename_i heq; simp at hw; obtain ⟨_, _, rfl⟩ := hw; rw [heq]; simp
        · rename_i heq; simp at hw; obtain ⟨_, _, rfl⟩ := hw; rw [heq]; simp
        · simp at hw
      simp only at h
      split at h
      · simp at h
      · rename_i ts3 h3
        have h2 := expectLit_len pend '=' _ ts3 h3
        split at h
        · rename_i n l r0
          simp at h; obtain ⟨_, rfl⟩ := h
          have := optSemi_len r0
          simp at h2; omega
        · simp at h

theorem field_fuel (pend : Option LexErr) (hp : PendOk pend) (ts : List Token) (e : PErr)
    (h : field pend ts = .error e) : e.isFuel = false := by
  unfold field at h
  simp only [bind, Except.bind] at h
  split at h
  · rename_i e' hv
    simp at h; subst h
    exact type_fuel pend hp ts _ hv
  · rename_i v hv
    split at h
    · rename_i e' hw
      simp at h; subst h
      split at hw
      · simp at hw
      · simp at hw
      · simp at hw; subst hw; exact bad_notFuel pend hp _
    · rename_i w hw
      split at h
      · rename_i e' h3
        simp at h; subst h
        exact expectLit_fuel pend hp '=' _ _ h3
      · split at h
        · simp at h
        · simp at h; subst h; exact bad_notFuel pend hp _

theorem simpleStmt_len (pend : Option LexErr) (kwd : String) (kl : Nat) (ts : List Token)
    (it : Option Item) (pr : Option String) (r : List Token)
    (h : simpleStmt pend kwd kl ts = .ok (it, pr, r)) : r.length ≤ ts.length := by
  unfold simpleStmt at h
  split at h
  · -- proto
    split at h
    · rename_i s l r0
      simp at h; obtain ⟨_, _, rfl⟩ := h
      have := optSemi_len r0; simp; omega
    · simp at h
  · -- import
    split at h
    · rename_i f l r0
      simp at h; obtain ⟨_, _, rfl⟩ := h
      have := optSemi_len r0; simp; omega
    · rename_i a l f l' r0
      simp at h; obtain ⟨_, _, rfl⟩ := h
      have := optSemi_len r0; simp; omega
    · simp at h
    · simp at h
  · -- option
    split at h
    · rename_i s l r0
      simp only [bind, Except.bind] at h
      split at h
      · simp at h
      · rename_i w hw
        split at h
        · simp at h
        · rename_i r2 h2
          split at h
          · simp at h
          · rename_i u hu
            simp at h; obtain ⟨_, _, rfl⟩ := h
            have a1 := dotted_len pend s r0 w.1 w.2 hw
            have a2 := expectLit_len pend '=' _ r2 h2
            have a3 := optionValue_len pend r2 u.1 u.2 hu
            have a4 := optSemi_len u.2
            simp; omega
    · simp at h
  · -- type
    split at h
    · rename_i s l r0
      simp only [bind, Except.bind] at h
      split at h
      · simp at h
      · rename_i r1 h1
        split at h
        · simp at h
        · rename_i u hu
          simp at h; obtain ⟨_, _, rfl⟩ := h
          have a1 := expectLit_len pend '=' r0 r1 h1
          have a2 := type_len pend r1 u.1 u.2 hu
          have a3 := optSemi_len u.2
          simp; omega
    · simp at h
  · -- typedef
    simp only [bind, Except.bind] at h
    split at h
    · simp at h
    · rename_i u hu
      have a1 := type_len pend ts u.1 u.2 hu
      split at h
      · rename_i s l r0 heq
        simp at h; obtain ⟨_, _, rfl⟩ := h
        have a2 := optSemi_len r0
        rw [heq] at a1
        simp at a1; omega
      · simp at h
  · -- const
    split at h
    · rename_i s l r0
      simp only [bind, Except.bind] at h
      split at h
      · simp at h
      · rename_i r1 h1
        split at h
        · simp at h
        · rename_i u hu
          simp at h; obtain ⟨_, _, rfl⟩ := h
          have a1 := expectLit_len pend '=' r0 r1 h1
          have a2 := constValue_len pend r1 u.1 u.2 hu
          have a3 := optSemi_len u.2
          simp; omega
    · simp at h
  · simp at h

theorem simpleStmt_fuel (pend : Option LexErr) (hp : PendOk pend) (kwd : String) (kl : Nat) (ts : List Token) (e : PErr)
    (h : simpleStmt pend kwd kl ts = .error e) : e.isFuel = false := by
  have hb : ∀ x, (bad pend x).isFuel = false := bad_notFuel pend hp
  unfold simpleStmt at h
  split at h
  · split at h
    · simp at h
    · simp at h; subst h; exact hb _
  · split at h
    · simp at h
    · simp at h
    · simp at h; subst h; exact hb _
    · simp at h; subst h; exact hb _
  · split at h
    · rename_i s l r0
      simp only [bind, Except.bind] at h
      split at h
      · rename_i e' hd; simp at h; subst h; exact dotted_fuel pend hp s r0 _ hd
      · split at h
        · rename_i e' h2; simp at h; subst h; exact expectLit_fuel pend hp '=' _ _ h2
        · split at h
          · rename_i e' hu; simp at h; subst h; exact optionValue_fuel pend hp _ _ hu
          · simp at h
    · simp at h; subst h; exact hb _
  · split at h
    · rename_i s l r0
      simp only [bind, Except.bind] at h
      split at h
      · rename_i e' h1; simp at h; subst h; exact expectLit_fuel pend hp '=' _ _ h1
      · split at h
        · rename_i e' hu; simp at h; subst h; exact type_fuel pend hp _ _ hu
        · simp at h
    · simp at h; subst h; exact hb _
  · simp only [bind, Except.bind] at h
    split at h
    · rename_i e' hu; simp at h; subst h; exact type_fuel pend hp _ _ hu
    · split at h
      · simp at h
      · simp at h; subst h; exact hb _
  · split at h
    · rename_i s l r0
      simp only [bind, Except.bind] at h
      split at h
      · rename_i e' h1; simp at h; subst h; exact expectLit_fuel pend hp '=' _ _ h1
      · split at h
        · rename_i e' hu; simp at h; subst h; exact constValue_fuel pend hp _ _ hu
        · simp at h
    · simp at h; subst h; exact hb _
  · simp at h; subst h; exact hb _

/-! ### scopes -/
@[simp] theorem push_snd (it mem pr) (res : Body × List Token) : (Body.push it mem pr res).2 = res.2 := rfl
@[simp] theorem push_hung (it mem pr) (res : Body × List Token) : (Body.push it mem pr res).1.hung = res.1.hung := rfl
@[simp] theorem last_snd (it : Item) (b : Body) : (Body.last it b).2 = [] := rfl
@[simp] theorem last_hung (it : Item) (b : Body) : (Body.last it b).1.hung = b.hung := rfl
@[simp] theorem stop_snd (e : PErr) : (Body.stop e).2 = [] := rfl
@[simp] theorem stop_hung (e : PErr) : (Body.stop e).1.hung = e.isFuel := rfl

theorem items_len (pend : Option LexErr) : ∀ (f : Nat) (sc : Scope) (ts : List Token), (items pend f sc ts).2.length ≤ ts.length
  | 0, sc, ts => by simp [items]
  | f+1, sc, [] => by
    simp only [items]
    split
    · split <;> simp
    · simp
  | f+1, sc, t :: ts => by
    have ih := items_len pend f
    simp only [items]
    repeat' split
    all_goals (try (simp; done))
    all_goals (simp only [push_snd])
    all_goals (refine Nat.le_trans (ih _ _) ?_)
    all_goals first
      | (simp; done)
      | (have h1 := field_len pend _ _ _ ‹field pend _ = Except.ok _›; simp at h1 ⊢; omega)
      | (have h1 := simpleStmt_len pend _ _ _ _ _ _ ‹simpleStmt pend _ _ _ = Except.ok _›; simp; omega)
      | (refine Nat.le_trans (optSemi_len _) ?_; simp; omega)
      | (rename_i r x l r1 heq hst
         have h1 := optExt_len r
         rw [heq] at h1
         refine Nat.le_trans (ih _ _) ?_
         simp at h1 ⊢; omega)
      | (refine Nat.le_trans (ih _ _) ?_; simp; omega)
      | (simp; omega)

theorem items_hung (pend : Option LexErr) (hp : PendOk pend) : ∀ (f : Nat) (sc : Scope) (ts : List Token),
    ts.length < f → (items pend f sc ts).1.hung = false
  | 0, sc, ts, hf => by omega
  | f+1, sc, [], _ => by
    simp only [items]
    split
    · split
      · rename_i e
        simp only [stop_hung, PErr.isFuel]
        cases e <;> simp
        exact hp rfl
      · rfl
    · simp only [stop_hung]; exact bad_notFuel pend hp _
  | f+1, sc, t :: ts, hf => by
    have ih := items_hung pend hp f
    have il := items_len pend f
    have hb : ∀ x, (bad pend x).isFuel = false := bad_notFuel pend hp
    have hts : ts.length < f := by simp at hf; omega
    simp only [items]
    repeat' split
    all_goals (try (simp only [stop_hung, push_hung, last_hung]))
    all_goals first
      | rfl
      | (exact hb _)
      | (exact field_fuel pend hp _ _ ‹field pend _ = Except.error _›)
      | (exact simpleStmt_fuel pend hp _ _ _ _ ‹simpleStmt pend _ _ _ = Except.error _›)
      | (refine ih _ _ ?_
         first
           | (simp at hf ⊢; omega)
           | (have h1 := field_len pend _ _ _ ‹field pend _ = Except.ok _›; simp at h1 hf ⊢; omega)
           | (have h1 := simpleStmt_len pend _ _ _ _ _ _ ‹simpleStmt pend _ _ _ = Except.ok _›; simp at hf ⊢; omega)
           | (have h1 := optSemi_len ‹List Token›; simp at hf ⊢; omega)
           | (rename_i r x l r1 heq hst
              have h1 := optExt_len r
              rw [heq] at h1
              have h2 := il Scope.msg r1
              simp at h1 hf ⊢; omega)
           | (have h2 := il Scope.enum ‹List Token›; simp at hf ⊢; omega)
           | (rename_i r x l r1 heq
              have h1 := optExt_len r
              rw [heq] at h1
              simp at h1 hf ⊢; omega)
           | (rename_i r x l r1 heq hst
              have h1 := optExt_len r
              rw [heq] at h1
              simp at h1 hf ⊢; omega))

/-- **the grammar model never hits a fuel bound**, whatever the text -/
theorem parseBody_total (raw : List Char) : (parseBody raw).hung = false := by
  unfold parseBody
  exact items_hung _ (Lex.lex_total _) _ _ _ (Nat.lt_succ_self _)

end Bp.Parse
