import BpModel.Proofs.CCopy
import BpModel.Proofs.PyEnc
import BpModel.Proofs.SpecDec
/-!
# C leaves: `BpEndecodeBaseType` / `BpEndecodeInt` on both builds

* encode writes exactly `leafBits n x` (so only the low `n` bits of the cell matter) and never
  leaves the wire buffer, the cell or the staging buffer;
* decode into a zeroed cell leaves the unsigned wire value, and after `BpHandleIntSignAfterEndecode`
  the sign-extended one;
* the big-endian build on big-endian storage does the same as the little-endian build on
  little-endian storage (the staging buffer is the byte-reversed cell).
-/
namespace Bp.CRt
open Bp PyRt

theorem storageSize_cases (n : Nat) (h : n ≤ 64) :
    n ≤ 8 * storageSize n ∧ 1 ≤ storageSize n ∧ storageSize n ≤ 8 := by
  unfold storageSize; split <;> (try split) <;> (try split) <;> omega

theorem getD_range_map (f : Nat → Nat) (m k : Nat) : ((List.range m).map f).getD k 0 = if k < m then f k else 0 := by
  by_cases h : k < m <;> simp [List.getD_eq_getElem?_getD, h]

theorem range_map_allBytes (f : Nat → Nat) (m : Nat) (h : ∀ k, f k < 256) : AllBytes ((List.range m).map f) := by
  intro b hb
  simp only [List.mem_map, List.mem_range] at hb
  obtain ⟨k, _, rfl⟩ := hb
  exact h k

theorem natToBytes_getD (len u k : Nat) : (natToBytes len u).getD k 0 = if k < len then (u >>> (8*k)) % 256 else 0 := by
  induction len generalizing u k with
  | zero => simp [natToBytes]
  | succ len ih =>
    cases k with
    | zero => simp [natToBytes]
    | succ k =>
      simp only [natToBytes, List.getD_cons_succ, ih]
      have e : (u / 256) >>> (8 * k) = u >>> (8 * (k + 1)) := by
        have h8 : u / 256 = u >>> 8 := by rw [Nat.shiftRight_eq_div_pow]
        rw [h8, ← Nat.shiftRight_add]; congr 1; omega
      by_cases h : k < len
      · have : k + 1 < len + 1 := by omega
        simp only [h, this, if_true, e]
      · have : ¬ k + 1 < len + 1 := by omega
        simp [h, this]

/-- the Nat view of the big-endian staging of a big-endian cell is the integer the cell holds -/
theorem stageIn_cellOf (size u : Nat) (hs : size ≤ 8) :
    bytesToNat (stageIn size (cellOf true size u)) = u % 2^(8*size) := by
  apply Nat.eq_of_testBit_eq
  intro p
  have hall : AllBytes (stageIn size (cellOf true size u)) := by
    apply range_map_allBytes
    intro k
    split
    · simp only [cellOf, if_true]
      have := natToBytes_allBytes size u
      by_cases hk : size - 1 - k < (natToBytes size u).reverse.length
      · rw [List.getD_eq_getElem?_getD, List.getElem?_eq_getElem hk]
        exact this _ (List.mem_reverse.mp (List.getElem_mem hk))
      · rw [List.getD_eq_getElem?_getD, List.getElem?_eq_none (by omega)]; decide
    · decide
  rw [bytesToNat_testBit _ hall, Nat.testBit_mod_two_pow]
  simp only [stageIn, getD_range_map, cellOf, if_true]
  by_cases hp : p < 8 * size
  · have h1 : p / 8 < 8 := by omega
    have h2 : p / 8 < size := by omega
    have hlen : (natToBytes size u).length = size := natToBytes_length _ _
    have hidx : size - 1 - p / 8 < (natToBytes size u).reverse.length := by simp [hlen]; omega
    simp only [h1, h2, if_true, hp, decide_true, Bool.true_and]
    rw [List.getD_eq_getElem?_getD, List.getElem?_eq_getElem hidx, Option.getD_some, List.getElem_reverse]
    have e : (natToBytes size u).length - 1 - (size - 1 - p / 8) = p / 8 := by rw [hlen]; omega
    have hk : p / 8 < (natToBytes size u).length := by rw [hlen]; exact h2
    have : (natToBytes size u)[(natToBytes size u).length - 1 - (size - 1 - p / 8)]'(by rw [e]; exact hk) =
        (natToBytes size u).getD (p / 8) 0 := by
      rw [List.getD_eq_getElem?_getD, List.getElem?_eq_getElem hk]; congr 1
    rw [this, natToBytes_getD]
    simp only [h2, if_true]
    have : (256:Nat) = 2^8 := by decide
    rw [this, Nat.testBit_mod_two_pow, Nat.testBit_shiftRight]
    have : p % 8 < 8 := by omega
    have e2 : 8 * (p / 8) + p % 8 = p := by omega
    simp [this, e2]
  · simp only [hp, decide_false, Bool.false_and]
    by_cases h1 : p / 8 < 8
    · have h2 : ¬ p / 8 < size := by omega
      simp [h1, h2]
    · simp [h1]

theorem cellOf_le_val (size u : Nat) : bytesToNat (cellOf false size u) = u % 2^(8*size) := by
  simp [cellOf, bytesToNat_natToBytes]

/-- **encode, both builds**: the C leaf writer writes exactly the specified chunk -/
theorem writes_cleaf (be : Bool) (n : Nat) (hn : n ≤ 64) (x : Int) :
    Writes (encLeafAct be n x) (leafBits n x) := by
  intro s i hs hroom hz
  rw [leafBits_length] at hroom ⊢
  obtain ⟨hsz, hsz1, hsz8⟩ := storageSize_cases n hn
  -- source Nat view = two's complement at storage width, whatever the build
  have hsrc : ∀ st : St, st = encBase be n (cellOf be (storageSize n) (tc x (8 * storageSize n))) (bytesToNat s) i →
      st = copyBits be n (bytesToNat s) (tc x (8 * storageSize n)) i 0 := by
    intro st h
    rw [h]
    cases be with
    | true =>
      simp only [encBase, if_true, stageIn_cellOf _ _ hsz8, Nat.mod_eq_of_lt (PyInt.tc_lt _ _)]
    | false =>
      simp only [encBase, Bool.false_eq_true, if_false, cellOf_le_val, Nat.mod_eq_of_lt (PyInt.tc_lt _ _)]
  obtain ⟨hw, hr, hb⟩ := copyBits_spec be n (bytesToNat s) (tc x (8 * storageSize n)) i 0 hz
  have hst := hsrc _ rfl
  unfold encLeafAct
  simp only [hst]
  have hwlen : (copyBits be n (bytesToNat s) (tc x (8 * storageSize n)) i 0).whi ≤ s.length := by omega
  have hrlen : (copyBits be n (bytesToNat s) (tc x (8 * storageSize n)) i 0).rhi ≤ (if be then 8 else storageSize n) := by
    have : (0 + n + 7) / 8 ≤ storageSize n := by omega
    cases be <;> simp <;> omega
  simp only [hwlen, hrlen, and_self, if_true]
  have hlt : (copyBits be n (bytesToNat s) (tc x (8 * storageSize n)) i 0).D < 2^(8 * s.length) := by
    apply Nat.lt_pow_two_of_testBit
    intro p hp
    rw [hb p]
    have : (bytesToNat s).testBit p = false :=
      Nat.testBit_lt_two_pow (Nat.lt_of_lt_of_le (bytesToNat_lt s hs) (Nat.pow_le_pow_right (by decide) hp))
    have h2 : ¬ p < i + n := by omega
    simp [this, h2]
  refine ⟨_, rfl, natToBytes_allBytes _ _, natToBytes_length _ _, ?_⟩
  intro p
  rw [bytesToNat_natToBytes, Nat.mod_eq_of_lt hlt, hb p, bitAt_leafBits, PyInt.tc_testBit]
  by_cases h1 : i ≤ p
  · by_cases h2 : p < i + n
    · have : p - i < n := by omega
      have h3 : p - i < 8 * storageSize n := by omega
      simp [h1, h2, this, h3]
    · simp [h1, h2]
  · simp [h1]

/-! ## decode -/

theorem zeros_val (be : Bool) (k : Nat) : bytesToNat (if be then (zeros k).reverse else zeros k) = 0 := by
  cases be <;> simp [zeros, List.reverse_replicate] <;> exact bytesToNat_zeros k

/-- Nat view of the cell after the big-endian un-staging -/
theorem cellVal_stageOut (size D : Nat) (hs1 : 1 ≤ size) (hs : size ≤ 8) (hD : D < 2^(8*size)) :
    cellVal true (stageOut size (natToBytes 8 D) (zeros size)) = D := by
  unfold cellVal stageOut
  simp only [if_true, zeros, List.length_replicate]
  have hrev : ((List.range size).map fun j => if j < size then (natToBytes 8 D).getD (size - 1 - j) 0
      else (List.replicate size 0).getD j 0).reverse = natToBytes size D := by
    apply List.ext_getElem
    · simp [natToBytes_length]
    · intro k h1 h2
      have hk : k < size := by simpa [natToBytes_length] using h2
      rw [List.getElem_reverse]
      simp only [List.getElem_map, List.getElem_range, List.length_map, List.length_range]
      have h3 : size - 1 - k < size := by omega
      have e : size - 1 - (size - 1 - k) = k := by omega
      simp only [h3, if_true, e]
      have := natToBytes_getD size D k
      rw [List.getD_eq_getElem?_getD, List.getElem?_eq_getElem h2] at this
      simp only [Option.getD_some, hk, if_true] at this
      rw [this, natToBytes_getD]
      have : k < 8 := by omega
      simp [this]
  rw [hrev, bytesToNat_natToBytes, Nat.mod_eq_of_lt hD]

/-- **decode, both builds**: into a zeroed cell, the cell then holds the unsigned wire value -/
theorem decLeafVal_unsigned (be : Bool) (n : Nat) (hn : n ≤ 64) (s : List Nat) (hs : AllBytes s) (i : Nat)
    (hroom : i + n ≤ 8 * s.length) :
    decLeafVal be false n s i = .ok ((readNat (bytesToNat s) i n : Nat), i + n) ∧
    ∃ u, decLeafVal be true n s i = .ok (sgn (signFix (storageSize n) n u) (8 * storageSize n), i + n) ∧
      u = readNat (bytesToNat s) i n := by
  obtain ⟨hsz, hsz1, hsz8⟩ := storageSize_cases n hn
  -- the copier result, on both builds: destination 0, source the wire from bit i
  have hz0 : ∀ p, 0 ≤ p → (0:Nat).testBit p = false := by intro p _; simp
  have hcopy : ∀ b, (copyBits b n 0 (bytesToNat s) 0 i).D = readNat (bytesToNat s) i n := by
    intro b
    apply Nat.eq_of_testBit_eq
    intro p
    rw [(copyBits_spec b n 0 (bytesToNat s) 0 i hz0).2.2 p, readNat_testBit]
    simp
  have hR : ∀ b, (copyBits b n 0 (bytesToNat s) 0 i).rhi ≤ s.length := by
    intro b; have := (copyBits_spec b n 0 (bytesToNat s) 0 i hz0).2.1; omega
  have hWr : ∀ b, (copyBits b n 0 (bytesToNat s) 0 i).whi ≤ storageSize n := by
    intro b; have := (copyBits_spec b n 0 (bytesToNat s) 0 i hz0).1; omega
  have hlt : readNat (bytesToNat s) i n < 2^(8 * storageSize n) :=
    Nat.lt_of_lt_of_le (readNat_lt _ _ _) (Nat.pow_le_pow_right (by decide) hsz)
  have hcell : cellVal be (decBase be n (zeros (storageSize n)) (bytesToNat s) i).1 = readNat (bytesToNat s) i n ∧
      (decBase be n (zeros (storageSize n)) (bytesToNat s) i).2.rhi ≤ s.length ∧
      (decBase be n (zeros (storageSize n)) (bytesToNat s) i).2.whi ≤ (if be then 8 else storageSize n) := by
    cases be with
    | true =>
      simp only [decBase, if_true, hcopy true]
      refine ⟨cellVal_stageOut _ _ hsz1 hsz8 hlt, hR true, ?_⟩
      have := hWr true; omega
    | false =>
      have hzz : bytesToNat (zeros (storageSize n)) = 0 := bytesToNat_zeros _
      have hzl : (zeros (storageSize n)).length = storageSize n := by simp [zeros]
      simp only [decBase, Bool.false_eq_true, if_false, hzz, hcopy false, cellVal, hzl]
      refine ⟨?_, hR false, hWr false⟩
      rw [bytesToNat_natToBytes, Nat.mod_eq_of_lt hlt]
  obtain ⟨hv, hr, hw⟩ := hcell
  constructor
  · unfold decLeafVal
    simp only [hr, hw, and_self, if_true, hv, Bool.false_eq_true, if_false]
  · refine ⟨readNat (bytesToNat s) i n, ?_, rfl⟩
    unfold decLeafVal
    simp only [hr, hw, and_self, if_true, hv]

theorem two_pow_sub_testBit (W n k : Nat) (h : n ≤ W) :
    (2^W - 2^n).testBit k = (decide (n ≤ k) && decide (k < W)) := by
  have e : 2^W - 2^n = (2^(W-n) - 1) <<< n := by
    rw [Nat.shiftLeft_eq, Nat.sub_mul, ← Nat.pow_add]
    have : W - n + n = W := by omega
    rw [this]; simp
  rw [e, Nat.testBit_shiftLeft, Nat.testBit_two_pow_sub_one]
  by_cases h1 : n ≤ k <;> simp [h1] <;> omega

/-- `BpHandleIntSignAfterEndecode` turns the unsigned `n`-bit pattern in the cell into the
storage-width two's complement of its signed reading -/
theorem sgn_signFix (size n u : Nat) (hn1 : 1 ≤ n) (hn : n ≤ 8 * size) (hu : u < 2^n)
    (hstd : (n = 8 ∨ n = 16 ∨ n = 32 ∨ n = 64) → n = 8 * size) :
    sgn (signFix size n u) (8 * size) = sgn u n := by
  unfold signFix
  by_cases hs : n = 8 ∨ n = 16 ∨ n = 32 ∨ n = 64
  · simp only [hs, if_true]; rw [hstd hs]
  · simp only [hs, if_false]
    have hlt : n < 8 * size ∨ n = 8 * size := by omega
    by_cases hb : u.testBit (n - 1) = true
    · simp only [hb, if_true]
      have hW : 0 < 8 * size := by omega
      apply PyInt.eq_of_tb_eq
      intro k
      have hor : ∀ k, (u ||| (2^(8*size) - 2^n)).testBit k = (u.testBit k || (decide (n ≤ k) && decide (k < 8 * size))) := by
        intro k; rw [Nat.testBit_or, two_pow_sub_testBit _ _ _ hn]
      have hvlt : (u ||| (2^(8*size) - 2^n)) < 2^(8*size) := by
        apply Nat.or_lt_two_pow
        · exact Nat.lt_of_lt_of_le hu (Nat.pow_le_pow_right (by decide) hn)
        · have : 0 < 2^n := Nat.pow_pos (by decide)
          have : 0 < 2^(8*size) := Nat.pow_pos (by decide)
          omega
      have hfalse : ∀ j, n ≤ j → u.testBit j = false := fun j hj =>
        Nat.testBit_lt_two_pow (Nat.lt_of_lt_of_le hu (Nat.pow_le_pow_right (by decide) hj))
      rw [tb_sgn _ _ hW hvlt, tb_sgn _ _ hn1 hu, hor, hor, hb]
      by_cases hk : k < n
      · have : k < 8 * size := by omega
        have : ¬ n ≤ k := by omega
        simp [hk, *]
      · have hnk : n ≤ k := by omega
        simp only [hk, if_false]
        by_cases hkW : k < 8 * size
        · simp [hkW, hnk]
        · simp only [hkW, if_false]
          rcases hlt with h | h
          · have a1 : n ≤ 8 * size - 1 := by omega
            have a2 : 8 * size - 1 < 8 * size := by omega
            simp [a1, a2]
          · have a3 : 8 * size - 1 = n - 1 := by omega
            rw [a3, hb]; simp
    · have hb' : u.testBit (n - 1) = false := by simpa using hb
      simp only [hb', Bool.false_eq_true, if_false]
      unfold sgn
      have htop : u.testBit (8 * size - 1) = false := by
        rcases hlt with h | h
        · exact Nat.testBit_lt_two_pow (Nat.lt_of_lt_of_le hu (Nat.pow_le_pow_right (by decide) (by omega)))
        · have : 8 * size - 1 = n - 1 := by omega
          rw [this]; exact hb'
      simp [hb', htop]

theorem storageSize_std (n : Nat) (h : n = 8 ∨ n = 16 ∨ n = 32 ∨ n = 64) : n = 8 * storageSize n := by
  unfold storageSize; rcases h with h | h | h | h <;> subst h <;> decide

/-- a signed leaf decoded by C into a zeroed cell holds the sign-extended wire value -/
theorem decLeafVal_signed (be : Bool) (n : Nat) (hn1 : 1 ≤ n) (hn : n ≤ 64) (s : List Nat) (hs : AllBytes s)
    (i : Nat) (hroom : i + n ≤ 8 * s.length) :
    decLeafVal be true n s i = .ok (sgn (readNat (bytesToNat s) i n) n, i + n) := by
  obtain ⟨u, h, hu⟩ := (decLeafVal_unsigned be n hn s hs i hroom).2
  rw [h, hu, sgn_signFix _ _ _ hn1 (storageSize_cases n hn).1 (readNat_lt _ _ _) (storageSize_std n)]

end Bp.CRt
