import BpModel.Model.OpMode
import BpModel.Proofs.WireTree
/-!
# Optimization mode: every dialect's items write / read exactly the specified bits
-/
namespace Bp.OpMode
open Bp PyRt

/-- value of an encoder item (byte form), at its stream position -/
theorem encD_byte_testBit (U i j c p : Nat) (hc1 : c ≤ 8 - j % 8) (_hc2 : c ≤ 8 - i % 8) :
    ((smartShift ((U >>> (8 * (j / 8))) % 256) (((j % 8 : Nat) : Int) - ((i % 8 : Nat) : Int)) &&& getMask (i % 8) c)
        <<< (8 * (i / 8))).testBit p =
      (decide (i ≤ p) && decide (p < i + c) && U.testBit (j + (p - i))) := by
  have e256 : (256:Nat) = 2^8 := by decide
  simp only [Nat.testBit_shiftLeft, Nat.testBit_and, smartShift_testBit, getMask_testBit, e256,
    Nat.testBit_mod_two_pow, Nat.testBit_shiftRight]
  by_cases h1 : i ≤ p
  · by_cases h2 : p < i + c
    · have e1 : p ≥ 8 * (i / 8) := by omega
      have e2 : i % 8 ≤ p - 8 * (i / 8) := by omega
      have e3 : p - 8 * (i / 8) < i % 8 + c := by omega
      have e4 : i % 8 ≤ p - 8 * (i / 8) + j % 8 := by omega
      have e5 : p - 8 * (i / 8) + j % 8 - i % 8 < 8 := by omega
      have e6 : 8 * (j / 8) + (p - 8 * (i / 8) + j % 8 - i % 8) = j + (p - i) := by omega
      simp [h1, h2, e1, e2, e3, e4, e5, e6]
    · have : ¬ (p ≥ 8 * (i / 8) ∧ i % 8 ≤ p - 8 * (i / 8) ∧ p - 8 * (i / 8) < i % 8 + c) := by omega
      simp [h1, h2]
      intro a b c d; omega
  · simp [h1]
    intro a b c d; omega

/-- value of an encoder item (value-shift form) -/
theorem encD_be_testBit (U i j c p : Nat) (hc1 : c ≤ 8 - j % 8) (_hc2 : c ≤ 8 - i % 8) :
    ((smartShift U (((8 * (j / 8) : Nat) : Int) + (((j % 8 : Nat) : Int) - ((i % 8 : Nat) : Int))) &&& getMask (i % 8) c)
        <<< (8 * (i / 8))).testBit p =
      (decide (i ≤ p) && decide (p < i + c) && U.testBit (j + (p - i))) := by
  have es : ((8 * (j / 8) : Nat) : Int) + (((j % 8 : Nat) : Int) - ((i % 8 : Nat) : Int)) =
      ((8 * (j / 8) + j % 8 : Nat) : Int) - ((i % 8 : Nat) : Int) := by omega
  rw [es]
  simp only [Nat.testBit_shiftLeft, Nat.testBit_and, smartShift_testBit, getMask_testBit]
  by_cases h1 : i ≤ p
  · by_cases h2 : p < i + c
    · have e1 : p ≥ 8 * (i / 8) := by omega
      have e2 : i % 8 ≤ p - 8 * (i / 8) := by omega
      have e3 : p - 8 * (i / 8) < i % 8 + c := by omega
      have e4 : i % 8 ≤ p - 8 * (i / 8) + (8 * (j / 8) + j % 8) := by omega
      have e6 : p - 8 * (i / 8) + (8 * (j / 8) + j % 8) - i % 8 = j + (p - i) := by omega
      simp [h1, h2, e1, e2, e3, e4, e6]
    · have : ¬ (p ≥ 8 * (i / 8) ∧ i % 8 ≤ p - 8 * (i / 8) ∧ p - 8 * (i / 8) < i % 8 + c) := by omega
      simp [h1, h2]
      intro a b c d; omega
  · simp [h1]
    intro a b c d; omega

theorem byte_zero_of_clean (s : List Nat) (hs : AllBytes s) (i : Nat) (hi : i / 8 < s.length) (h0 : i % 8 = 0)
    (hz : ∀ p, i ≤ p → (bytesToNat s).testBit p = false) : s[i / 8] = 0 := by
  apply Nat.eq_of_testBit_eq
  intro q
  rw [getElem_testBit s hs (i / 8) hi q, Nat.zero_testBit]
  by_cases hq : q < 8
  · have := hz (8 * (i / 8) + q) (by omega)
    simp [hq, this]
  · simp [hq]

/-- one encoder statement, any dialect, from a buffer that is clean at and above the cursor -/
theorem execItem_spec (f : Item → List Nat → Except Exc (List Nat)) (U : Nat)
    (hf : ∀ i j c, f (mkEnc i j c) = execEnc true U (mkEnc i j c) ∨ f (mkEnc i j c) = execEnc false U (mkEnc i j c) ∨
      f (mkEnc i j c) = execEncBE U (mkEnc i j c))
    (s : List Nat) (i j c : Nat) (hs : AllBytes s) (hi : i / 8 < s.length) (hc1 : c ≤ 8 - j % 8) (hc2 : c ≤ 8 - i % 8)
    (hz : ∀ p, i ≤ p → (bytesToNat s).testBit p = false) :
    ∃ s', f (mkEnc i j c) s = .ok s' ∧ AllBytes s' ∧ s'.length = s.length ∧
      ∀ p, (bytesToNat s').testBit p =
        ((bytesToNat s).testBit p || (decide (i ≤ p) && decide (p < i + c) && U.testBit (j + (p - i)))) := by
  have hget : s[i / 8]? = some s[i / 8] := List.getElem?_eq_getElem hi
  have hold : s[i / 8] < 256 := hs _ (List.getElem_mem hi)
  -- common tail: OR-ing a byte value d < 256 whose bits are the chunk
  have tail : ∀ d, d < 256 →
      (∀ p, (d <<< (8 * (i / 8))).testBit p = (decide (i ≤ p) && decide (p < i + c) && U.testBit (j + (p - i)))) →
      ∃ s', (Except.ok (setAt s (i / 8) (s[i / 8] ||| d)) : Except Exc (List Nat)) = .ok s' ∧ AllBytes s' ∧
        s'.length = s.length ∧ ∀ p, (bytesToNat s').testBit p =
          ((bytesToNat s).testBit p || (decide (i ≤ p) && decide (p < i + c) && U.testBit (j + (p - i)))) := by
    intro d hd hb
    refine ⟨_, rfl, ?_, ?_, ?_⟩
    · rw [setAt_or_eq_orAt _ _ _ _ hget]; exact orAt_allBytes _ _ _ hs hd
    · rw [setAt_or_eq_orAt _ _ _ _ hget]; exact orAt_length _ _ _
    · intro p
      rw [setAt_or_eq_orAt _ _ _ _ hget, bytesToNat_orAt _ _ _ hs hd hi, Nat.testBit_or, hb p]
  have hmask : ∀ v, (v &&& getMask (i % 8) c) < 256 := fun v =>
    Nat.lt_of_le_of_lt Nat.and_le_right (getMask_lt _ _ (by omega))
  -- `=` on the first write to a byte is `|=` because the byte is still zero
  have hnb : ∀ (a : Bool) (d : Nat), (a = true → i % 8 = 0) → newByte a s[i / 8] d = s[i / 8] ||| d := by
    intro a d ha
    cases a with
    | false => simp [newByte]
    | true => rw [byte_zero_of_clean s hs i hi (ha rfl) hz]; simp [newByte]
  rcases hf i j c with h | h | h
  · rw [h]
    simp only [execEnc, mkEnc, hget]
    rw [hnb _ _ (by intro ha; simpa using ha)]
    exact tail _ (hmask _) (encD_byte_testBit U i j c · hc1 hc2)
  · rw [h]
    simp only [execEnc, mkEnc, hget]
    rw [hnb _ _ (by intro ha; simp at ha)]
    exact tail _ (hmask _) (encD_byte_testBit U i j c · hc1 hc2)
  · rw [h]
    simp only [execEncBE, mkEnc, hget]
    rw [hnb _ _ (by intro ha; simpa using ha)]
    exact tail _ (hmask _) (encD_be_testBit U i j c · hc1 hc2)

/-- the whole plan of a leaf -/
theorem runEnc_spec (f : Item → List Nat → Except Exc (List Nat)) (U n : Nat)
    (hf : ∀ i j c, f (mkEnc i j c) = execEnc true U (mkEnc i j c) ∨ f (mkEnc i j c) = execEnc false U (mkEnc i j c) ∨
      f (mkEnc i j c) = execEncBE U (mkEnc i j c)) :
    ∀ (fuel : Nat) (s : List Nat) (i j : Nat), n - j ≤ fuel → j ≤ n → AllBytes s → i + (n - j) ≤ 8 * s.length →
    (∀ p, i ≤ p → (bytesToNat s).testBit p = false) →
    ∃ s', runEnc f (planLeaf true n fuel i j) s = .ok s' ∧ AllBytes s' ∧ s'.length = s.length ∧
      ∀ p, (bytesToNat s').testBit p =
        ((bytesToNat s).testBit p || (decide (i ≤ p) && decide (p < i + (n - j)) && U.testBit (j + (p - i)))) := by
  intro fuel
  induction fuel with
  | zero =>
    intro s i j hfu hj hs _ _
    have h0 : n - j = 0 := by omega
    refine ⟨s, by simp [planLeaf, runEnc], hs, rfl, ?_⟩
    intro p; simp [h0]; intro h1 h2; omega
  | succ fuel ih =>
    intro s i j hfu hj hs hroom hz
    unfold planLeaf
    by_cases hlt : j < n
    · simp only [hlt, if_true, runEnc]
      have hc0 : nbitsToCopy i j n ≤ n - j := by unfold nbitsToCopy; omega
      have hcpos : 0 < nbitsToCopy i j n := by unfold nbitsToCopy; omega
      have hc1 : nbitsToCopy i j n ≤ 8 - j % 8 := by unfold nbitsToCopy; omega
      have hc2 : nbitsToCopy i j n ≤ 8 - i % 8 := by unfold nbitsToCopy; omega
      generalize nbitsToCopy i j n = c at *
      obtain ⟨s1, e1, a1, l1, b1⟩ := execItem_spec f U hf s i j c hs (by omega) hc1 hc2 hz
      rw [e1]
      have hz1 : ∀ p, i + c ≤ p → (bytesToNat s1).testBit p = false := by
        intro p hp
        rw [b1 p, hz p (by omega)]
        have : ¬ p < i + c := by omega
        simp [this]
      obtain ⟨s2, e2, a2, l2, b2⟩ := ih s1 (i + c) (j + c) (by omega) (by omega) a1 (by rw [l1]; omega) hz1
      refine ⟨s2, e2, a2, by rw [l2, l1], ?_⟩
      intro p
      rw [b2 p, b1 p]
      by_cases hb : (bytesToNat s).testBit p
      · simp [hb]
      · simp only [hb, Bool.false_or]
        by_cases h1 : i ≤ p
        · by_cases h2 : p < i + c
          · have : ¬ (i + c ≤ p) := by omega
            have h3 : p < i + (n - j) := by omega
            simp [h1, h2, this, h3]
          · have h4 : i + c ≤ p := by omega
            have e : j + c + (p - (i + c)) = j + (p - i) := by omega
            have e2 : (p < i + c + (n - (j + c))) = (p < i + (n - j)) := by
              apply propext; constructor <;> intro <;> omega
            simp [h1, h2, h4, e, e2]
        · have : ¬ (i + c ≤ p) := by omega
          simp [h1, this]
    · have h0 : n - j = 0 := by omega
      simp only [hlt, if_false, runEnc]
      refine ⟨s, rfl, hs, rfl, ?_⟩
      intro p; simp [h0]; intro h1 h2; omega

/-- **every dialect's leaf encoder writes exactly the specified chunk** -/
theorem writes_opLeaf (d : Dialect) (n : Nat) (hn : n ≤ 64) (x : Int) : Writes (encLeaf d n x) (leafBits n x) := by
  intro s i hs hroom hz
  rw [leafBits_length] at hroom ⊢
  obtain ⟨hsz, _, _⟩ := CRt.storageSize_cases n hn
  have key : ∀ f : Item → List Nat → Except Exc (List Nat),
      (∀ i j c, f (mkEnc i j c) = execEnc true (tc x (8 * CRt.storageSize n)) (mkEnc i j c) ∨
        f (mkEnc i j c) = execEnc false (tc x (8 * CRt.storageSize n)) (mkEnc i j c) ∨
        f (mkEnc i j c) = execEncBE (tc x (8 * CRt.storageSize n)) (mkEnc i j c)) →
      ∃ s', runEnc f (planLeaf true n n i 0) s = .ok s' ∧ AllBytes s' ∧ s'.length = s.length ∧
        ∀ p, (bytesToNat s').testBit p =
          ((bytesToNat s).testBit p || (decide (i ≤ p) && decide (p < i + n) && bitAt (leafBits n x) (p - i))) := by
    intro f hf
    obtain ⟨s', e, a, l, b⟩ := runEnc_spec f _ n hf n s i 0 (by omega) (by omega) hs (by omega) hz
    refine ⟨s', e, a, l, ?_⟩
    intro p
    simp only [Nat.sub_zero, Nat.zero_add] at b
    rw [b p, bitAt_leafBits, PyInt.tc_testBit]
    by_cases h1 : i ≤ p
    · by_cases h2 : p < i + n
      · have h3 : p - i < n := by omega
        have h4 : p - i < 8 * CRt.storageSize n := by omega
        simp [h1, h2, h3, h4]
      · simp [h1, h2]
    · simp [h1]
  cases d with
  | cLE =>
    obtain ⟨s', e, a, l, b⟩ := key (execEnc true _) (fun _ _ _ => Or.inl rfl)
    exact ⟨s', by simp [encLeaf, e], a, l, b⟩
  | go =>
    obtain ⟨s', e, a, l, b⟩ := key (execEnc false _) (fun _ _ _ => Or.inr (Or.inl rfl))
    exact ⟨s', by simp [encLeaf, e], a, l, b⟩
  | cBE =>
    obtain ⟨s', e, a, l, b⟩ := key (execEncBE _) (fun _ _ _ => Or.inr (Or.inr rfl))
    exact ⟨s', by simp [encLeaf, e], a, l, b⟩

/-! ## decode -/

theorem runDec_spec (n : Nat) (s : List Nat) (hs : AllBytes s) (i0 : Nat) :
    ∀ (fuel : Nat) (u j : Nat), n - j ≤ fuel → j ≤ n → i0 + n ≤ 8 * s.length →
    ∃ u', runDec s (planLeaf false n fuel (i0 + j) j) u = .ok u' ∧
      ∀ k, u'.testBit k =
        (u.testBit k || (decide (j ≤ k) && decide (k < n) && (bytesToNat s).testBit (i0 + k))) := by
  intro fuel
  induction fuel with
  | zero =>
    intro u j hfu hj _
    have : j = n := by omega
    subst this
    refine ⟨u, by simp [planLeaf, runDec], ?_⟩
    intro k; simp; intro h1 h2; omega
  | succ fuel ih =>
    intro u j hfu hj hroom
    unfold planLeaf
    by_cases hlt : j < n
    · simp only [hlt, if_true, Bool.false_eq_true, if_false, runDec]
      have hc0 : nbitsToCopy (i0 + j) j n ≤ n - j := by unfold nbitsToCopy; omega
      have hcpos : 0 < nbitsToCopy (i0 + j) j n := by unfold nbitsToCopy; omega
      have hc1 : nbitsToCopy (i0 + j) j n ≤ 8 - j % 8 := by unfold nbitsToCopy; omega
      have hc2 : nbitsToCopy (i0 + j) j n ≤ 8 - (i0 + j) % 8 := by unfold nbitsToCopy; omega
      generalize nbitsToCopy (i0 + j) j n = c at *
      have hi : (i0 + j) / 8 < s.length := by omega
      have hget : s[(i0 + j) / 8]? = some s[(i0 + j) / 8] := List.getElem?_eq_getElem hi
      simp only [execDec, mkDec, hget]
      obtain ⟨u', e, b⟩ := ih (u ||| ((smartShift s[(i0 + j) / 8] ((((i0 + j) % 8 : Nat) : Int) - ((j % 8 : Nat) : Int)) &&&
          getMask (j % 8) c) <<< (8 * (j / 8)))) (j + c) (by omega) (by omega) hroom
      have e' : i0 + j + c = i0 + (j + c) := by omega
      rw [e']
      refine ⟨u', e, ?_⟩
      intro k
      have h8 : 8 * (j / 8) = j / 8 * 8 := by omega
      rw [b k, Nat.testBit_or, h8, decD_testBit s hs (i0 + j) j c k hi hc1 hc2]
      by_cases hb : u.testBit k
      · simp [hb]
      · simp only [hb, Bool.false_or]
        by_cases h1 : j ≤ k
        · by_cases h2 : k < j + c
          · have : ¬ (j + c ≤ k) := by omega
            have h3 : k < n := by omega
            have e : i0 + j + (k - j) = i0 + k := by omega
            simp [h1, h2, this, h3, e]
          · have h4 : j + c ≤ k := by omega
            simp [h1, h2, h4]
        · have : ¬ (j + c ≤ k) := by omega
          simp [h1, this]
    · have : j = n := by omega
      subst this
      simp only [hlt, if_false, runDec]
      refine ⟨u, rfl, ?_⟩
      intro k; simp; intro h1 h2; omega

/-- **every dialect's leaf decoder, into a zeroed field, reads exactly the wire value** (and the
sign statement extends it) -/
theorem decLeaf_ok : Wire.ReaderOk decLeaf := by
  have hread : ∀ n s, AllBytes s → ∀ i, i + n ≤ 8 * s.length →
      runDec s (planLeaf false n n i 0) 0 = .ok (readNat (bytesToNat s) i n) := by
    intro n s hs i hroom
    obtain ⟨u', e, b⟩ := runDec_spec n s hs i n 0 0 (by omega) (by omega) hroom
    simp only [Nat.add_zero] at e
    rw [e]
    congr 1
    apply Nat.eq_of_testBit_eq
    intro k
    rw [b k, readNat_testBit]; simp
  constructor
  · intro n _ s hs i hroom
    simp [decLeaf, hread n s hs i hroom]
  · intro n hn1 hn s hs i hroom
    simp only [decLeaf, hread n s hs i hroom, if_true]
    rw [CRt.sgn_signFix _ _ _ hn1 (CRt.storageSize_cases n hn).1 (readNat_lt _ _ _) (CRt.storageSize_std n)]

/-- the plan covers every bit of the leaf exactly once, in order: chunk sizes are positive, fit
the source and destination byte, and sum to the width -/
theorem planChunks_cover (n : Nat) : ∀ (fuel i j : Nat), n - j ≤ fuel → j ≤ n →
    (planChunks n fuel i j).sum = n - j ∧ ∀ c ∈ planChunks n fuel i j, 0 < c ∧ c ≤ 8 := by
  intro fuel
  induction fuel with
  | zero => intro i j h1 h2; simp [planChunks]; omega
  | succ fuel ih =>
    intro i j h1 h2
    unfold planChunks
    by_cases hlt : j < n
    · simp only [hlt, if_true, List.sum_cons, List.mem_cons]
      have hc0 : nbitsToCopy i j n ≤ n - j := by unfold nbitsToCopy; omega
      have hcpos : 0 < nbitsToCopy i j n := by unfold nbitsToCopy; omega
      have hc8 : nbitsToCopy i j n ≤ 8 := by unfold nbitsToCopy; omega
      obtain ⟨hs, hm⟩ := ih (i + nbitsToCopy i j n) (j + nbitsToCopy i j n) (by omega) (by omega)
      refine ⟨by rw [hs]; omega, ?_⟩
      intro c hc
      rcases hc with rfl | hc
      · exact ⟨hcpos, hc8⟩
      · exact hm c hc
    · simp [hlt]; omega

end Bp.OpMode
