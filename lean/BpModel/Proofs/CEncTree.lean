import BpModel.Proofs.CLeaf
import BpModel.Proofs.PyEncTree
import BpModel.Model.CRtTree
/-!
# The C encoder of every type tree writes `Spec.bits` (both builds), batch path included
-/
namespace Bp.CRt
open Bp PyRt

theorem writes_cprefix (be ext : Bool) (v : Nat) :
    Writes (encPrefix be ext v) (if ext then natBits 16 v else []) := by
  cases ext with
  | false => exact Writes.congr (fun s i => by simp [encPrefix]) Writes.nil
  | true =>
    have h := writes_cleaf be 16 (by decide) (v : Int)
    have e : leafBits 16 (v : Int) = natBits 16 v := by
      unfold leafBits natBits
      apply List.map_congr_left
      intro k hk
      have hk : k < 16 := by simpa using hk
      rw [PyInt.tc_testBit]; simp [hk]
    rw [e] at h
    exact Writes.congr (fun s i => by simp [encPrefix]) h

theorem writes_carr (f : Val → Act) (bits : Val → List Bool) :
    ∀ (vs : List Val), (∀ v ∈ vs, Writes (f v) (bits v)) →
      Writes (encArrWith f vs.length vs) (vs.flatMap bits)
  | [], _ => by simpa [encArrWith] using Writes.nil
  | v :: vs, h => by
    have h1 := h v (by simp)
    have h2 := writes_carr f bits vs (fun w hw => h w (by simp [hw]))
    have := Writes.seq h1 h2
    rw [List.flatMap_cons]
    refine Writes.congr (fun s i => ?_) this
    simp only [List.length_cons, encArrWith]
    cases f v s i <;> rfl

/-! ### the batch path -/

theorem bytesToNat_append : ∀ (a b : List Nat), bytesToNat (a ++ b) = bytesToNat a + 2^(8 * a.length) * bytesToNat b
  | [], b => by simp [bytesToNat]
  | x :: a, b => by
    have ih := bytesToNat_append a b
    simp only [List.cons_append, bytesToNat, ih, List.length_cons]
    have : 2^(8 * (a.length + 1)) = 256 * 2^(8 * a.length) := by
      rw [Nat.mul_add, Nat.pow_add]; simp [Nat.mul_comm]
    rw [this]
    simp only [Nat.mul_add, Nat.mul_assoc, Nat.add_assoc]

theorem cellsOf_length (size : Nat) : ∀ vs, (cellsOf size vs).length = size * vs.length
  | [] => by simp [cellsOf]
  | v :: vs => by simp [cellsOf, natToBytes_length, cellsOf_length size vs, Nat.mul_add]; omega

theorem cellsOf_allBytes (size : Nat) : ∀ vs, AllBytes (cellsOf size vs)
  | [] => by intro b hb; simp [cellsOf] at hb
  | v :: vs => by
    intro b hb
    simp only [cellsOf, List.mem_append] at hb
    rcases hb with hb | hb
    · exact natToBytes_allBytes _ _ b hb
    · exact cellsOf_allBytes size vs b hb

/-- the contiguous array memory, bit by bit, is the concatenation of the elements' chunks -/
theorem cellsOf_testBit (size : Nat) : ∀ (vs : List Val) (q : Nat), q < 8 * size * vs.length →
    (bytesToNat (cellsOf size vs)).testBit q =
      bitAt (vs.flatMap fun v => leafBits (8 * size) (Val.toInt v)) q
  | [], q, h => by simp at h
  | v :: vs, q, h => by
    have hb : tc (Val.toInt v) (8 * size) < 2^(8 * size) := PyInt.tc_lt _ _
    simp only [cellsOf, bytesToNat_append, natToBytes_length, bytesToNat_natToBytes, Nat.mod_eq_of_lt hb,
      List.flatMap_cons]
    rw [Nat.add_comm, Nat.testBit_two_pow_mul_add _ hb]
    by_cases hq : q < 8 * size
    · simp only [hq, if_true]
      rw [bitAt_append_left _ _ _ (by rw [leafBits_length]; exact hq), bitAt_leafBits, PyInt.tc_testBit]
    · simp only [hq, if_false]
      rw [bitAt_append_right _ _ _ (by rw [leafBits_length]; omega), leafBits_length]
      apply cellsOf_testBit size vs
      simp only [List.length_cons, Nat.mul_add] at h; omega

theorem flatMap_leafBits_length (n : Nat) : ∀ (vs : List Val),
    (vs.flatMap fun v => leafBits n (Val.toInt v)).length = n * vs.length
  | [] => by simp
  | v :: vs => by
    simp [List.flatMap_cons, leafBits_length, flatMap_leafBits_length n vs, Nat.mul_add]; omega

/-- **the batch copy writes the same bits as the per-element loop** (`n = 8·storageSize n`) -/
theorem writes_batch (n : Nat) (hstd : n = 8 ∨ n = 16 ∨ n = 32 ∨ n = 64) (vs : List Val) :
    Writes (encBatch n vs) (vs.flatMap fun v => leafBits n (Val.toInt v)) := by
  have hn := storageSize_std n hstd
  intro s i hs hroom hz
  rw [flatMap_leafBits_length] at hroom ⊢
  obtain ⟨hw, hr, hb⟩ := copyBits_spec false (n * vs.length) (bytesToNat s)
    (bytesToNat (cellsOf (storageSize n) vs)) i 0 hz
  unfold encBatch
  simp only [encBase, Bool.false_eq_true, if_false]
  have hwlen : (copyBits false (n * vs.length) (bytesToNat s) (bytesToNat (cellsOf (storageSize n) vs)) i 0).whi ≤ s.length := by
    omega
  have hrlen : (copyBits false (n * vs.length) (bytesToNat s) (bytesToNat (cellsOf (storageSize n) vs)) i 0).rhi ≤
      (cellsOf (storageSize n) vs).length := by
    rw [cellsOf_length]
    have : n * vs.length = 8 * (storageSize n * vs.length) := by rw [← Nat.mul_assoc, ← hn]
    omega
  simp only [hwlen, hrlen, and_self, if_true]
  have hlt : (copyBits false (n * vs.length) (bytesToNat s) (bytesToNat (cellsOf (storageSize n) vs)) i 0).D <
      2^(8 * s.length) := by
    apply Nat.lt_pow_two_of_testBit
    intro p hp
    rw [hb p]
    have : (bytesToNat s).testBit p = false :=
      Nat.testBit_lt_two_pow (Nat.lt_of_lt_of_le (bytesToNat_lt s hs) (Nat.pow_le_pow_right (by decide) hp))
    have h2 : ¬ p < i + n * vs.length := by omega
    simp [this, h2]
  refine ⟨_, rfl, natToBytes_allBytes _ _, natToBytes_length _ _, ?_⟩
  intro p
  rw [bytesToNat_natToBytes, Nat.mod_eq_of_lt hlt, hb p]
  by_cases h1 : i ≤ p
  · by_cases h2 : p < i + n * vs.length
    · have hq : p - i < 8 * storageSize n * vs.length := by rw [← hn]; omega
      have := cellsOf_testBit (storageSize n) vs (p - i) hq
      rw [← hn] at this
      simp [h1, h2, this]
    · simp [h1, h2]
  · simp [h1]

/-- an integer-like element's chunk is the leaf chunk of its integer -/
theorem bits_intLike (e : Ty) (n : Nat) (h : intLikeBits e = some n) (v : Val) (hv : shape e v = true) :
    Spec.bits e v = leafBits n (Val.toInt v) ∧ e.nbits = n := by
  cases e with
  | bool => simp [intLikeBits] at h
  | byte =>
    simp only [intLikeBits, Option.some.injEq] at h; subst h
    cases v <;> simp [shape] at hv <;> simp [Spec.bits, Val.toInt, Ty.nbits]
  | uint m =>
    simp only [intLikeBits, Option.some.injEq] at h; subst h
    cases v <;> simp [shape] at hv <;> simp [Spec.bits, Val.toInt, Ty.nbits]
  | int m =>
    simp only [intLikeBits, Option.some.injEq] at h; subst h
    cases v <;> simp [shape] at hv <;> simp [Spec.bits, Val.toInt, Ty.nbits]
  | enum m ms =>
    simp only [intLikeBits, Option.some.injEq] at h; subst h
    cases v <;> simp [shape] at hv <;> simp [Spec.bits, Val.toInt, Ty.nbits]
  | alias t =>
    cases t with
    | byte =>
      simp only [intLikeBits, Option.some.injEq] at h; subst h
      cases v <;> simp [shape] at hv <;> simp [Spec.bits, Val.toInt, Ty.nbits]
    | uint m =>
      simp only [intLikeBits, Option.some.injEq] at h; subst h
      cases v <;> simp [shape] at hv <;> simp [Spec.bits, Val.toInt, Ty.nbits]
    | int m =>
      simp only [intLikeBits, Option.some.injEq] at h; subst h
      cases v <;> simp [shape] at hv <;> simp [Spec.bits, Val.toInt, Ty.nbits]
    | bool => simp [intLikeBits] at h
    | enum _ _ => simp [intLikeBits] at h
    | alias _ => simp [intLikeBits] at h
    | array _ _ _ => simp [intLikeBits] at h
    | msg _ _ => simp [intLikeBits] at h
  | array _ _ _ => simp [intLikeBits] at h
  | msg _ _ => simp [intLikeBits] at h

theorem nbits_intLike (e : Ty) (n : Nat) (h : intLikeBits e = some n) : e.nbits = n := by
  cases e with
  | bool => simp [intLikeBits] at h
  | byte => simp only [intLikeBits, Option.some.injEq] at h; subst h; simp [Ty.nbits]
  | uint m => simp only [intLikeBits, Option.some.injEq] at h; subst h; simp [Ty.nbits]
  | int m => simp only [intLikeBits, Option.some.injEq] at h; subst h; simp [Ty.nbits]
  | enum m ms => simp only [intLikeBits, Option.some.injEq] at h; subst h; simp [Ty.nbits]
  | alias t =>
    cases t with
    | byte => simp only [intLikeBits, Option.some.injEq] at h; subst h; simp [Ty.nbits]
    | uint m => simp only [intLikeBits, Option.some.injEq] at h; subst h; simp [Ty.nbits]
    | int m => simp only [intLikeBits, Option.some.injEq] at h; subst h; simp [Ty.nbits]
    | bool => simp [intLikeBits] at h
    | enum _ _ => simp [intLikeBits] at h
    | alias _ => simp [intLikeBits] at h
    | array _ _ _ => simp [intLikeBits] at h
    | msg _ _ => simp [intLikeBits] at h
  | array _ _ _ => simp [intLikeBits] at h
  | msg _ _ => simp [intLikeBits] at h

theorem flatMap_congr' {f g : Val → List Bool} : ∀ (l : List Val), (∀ v ∈ l, f v = g v) →
    l.flatMap f = l.flatMap g
  | [], _ => rfl
  | v :: l, h => by
    simp only [List.flatMap_cons, h v (by simp), flatMap_congr' l (fun w hw => h w (by simp [hw]))]

theorem writes_cfields_nil (be : Bool) (vs : List Val) : Writes (encFields be [] vs) [] :=
  Writes.congr (fun s i => by simp [encFields]) Writes.nil

mutual
theorem writes_cenc (be : Bool) : ∀ (t : Ty) (v : Val), t.wf = true → shape t v = true →
    Writes (enc be t v) (Spec.bits t v)
  | .bool, .int x, _, _ =>
    Writes.congr (g := encLeafAct be 1 x) (fun s i => by simp [enc]) (by simpa [Spec.bits] using writes_cleaf be 1 (by decide) x)
  | .byte, .int x, _, _ =>
    Writes.congr (g := encLeafAct be 8 x) (fun s i => by simp [enc]) (by simpa [Spec.bits] using writes_cleaf be 8 (by decide) x)
  | .uint n, .int x, hwf, _ => by
    simp only [Ty.wf, Bool.and_eq_true, decide_eq_true_eq] at hwf
    exact Writes.congr (g := encLeafAct be n x) (fun s i => by simp [enc]) (by simpa [Spec.bits] using writes_cleaf be n hwf.2 x)
  | .int n, .int x, hwf, _ => by
    simp only [Ty.wf, Bool.and_eq_true, decide_eq_true_eq] at hwf
    exact Writes.congr (g := encLeafAct be n x) (fun s i => by simp [enc]) (by simpa [Spec.bits] using writes_cleaf be n hwf.2 x)
  | .enum n _, .int x, hwf, _ => by
    simp only [Ty.wf, Bool.and_eq_true, decide_eq_true_eq] at hwf
    exact Writes.congr (g := encLeafAct be n x) (fun s i => by simp [enc]) (by simpa [Spec.bits] using writes_cleaf be n hwf.1.1.2 x)
  | .alias t, v, hwf, h => by
    simp only [Ty.wf, Bool.and_eq_true] at hwf
    have := writes_cenc be t v hwf.2 (by simpa [shape] using h)
    exact Writes.congr (g := enc be t v) (fun s i => by simp [enc]) (by simpa [Spec.bits] using this)
  | .array ext cap e, .arr vs, hwf, h => by
    simp only [Ty.wf, Bool.and_eq_true, decide_eq_true_eq] at hwf
    obtain ⟨_, hwfe⟩ := hwf
    simp only [shape, Bool.and_eq_true, decide_eq_true_eq, List.all_eq_true] at h
    obtain ⟨hlen, hall⟩ := h
    have h1 := writes_cprefix be ext cap
    simp only [Spec.bits]
    by_cases hbatch : useBatch be e = true
    · -- batch path
      simp only [useBatch, Bool.and_eq_true, Bool.not_eq_true'] at hbatch
      obtain ⟨_, hb2⟩ := hbatch
      cases hil : intLikeBits e with
      | none => simp [hil] at hb2
      | some n =>
        simp only [hil, Bool.or_eq_true, beq_iff_eq] at hb2
        have hstd : n = 8 ∨ n = 16 ∨ n = 32 ∨ n = 64 := by omega
        have hbits : vs.flatMap (Spec.bits e) = vs.flatMap fun v => leafBits n (Val.toInt v) :=
          flatMap_congr' vs (fun v hv => (bits_intLike e n hil v (hall v hv)).1)
        have hen : e.nbits = n := nbits_intLike e n hil
        have h2 := writes_batch n hstd vs
        rw [← hbits] at h2
        have := Writes.seq h1 h2
        refine Writes.congr (fun s i => ?_) this
        simp only [enc]
        cases encPrefix be ext cap s i with
        | error _ => rfl
        | ok p =>
          have hub : useBatch be e = true := by
            simp only [useBatch, Bool.and_eq_true, Bool.not_eq_true']
            refine ⟨by assumption, ?_⟩
            simp [hil]; omega
          simp [hub, hlen, hen]
    · have h2 := writes_carr (enc be e) (Spec.bits e) vs (fun v hv => writes_cenc be e v hwfe (hall v hv))
      rw [hlen] at h2
      have := Writes.seq h1 h2
      refine Writes.congr (fun s i => ?_) this
      simp only [enc]
      cases encPrefix be ext cap s i with
      | error _ => rfl
      | ok p => simp [hbatch]
  | .msg ext fs, .msg vs, hwf, h => by
    simp only [Ty.wf, Bool.and_eq_true] at hwf
    have h1 := writes_cprefix be ext (extBits ext + fieldsBits fs)
    have h2 := writes_cfields be fs vs hwf.2 (by simpa [shape] using h)
    have := Writes.seq h1 h2
    simp only [Spec.bits]
    refine Writes.congr (fun s i => ?_) this
    simp only [enc]
    cases encPrefix be ext (extBits ext + fieldsBits fs) s i <;> rfl
  | .bool, .arr _, _, h | .bool, .msg _, _, h => by simp [shape] at h
  | .byte, .arr _, _, h | .byte, .msg _, _, h => by simp [shape] at h
  | .uint _, .arr _, _, h | .uint _, .msg _, _, h => by simp [shape] at h
  | .int _, .arr _, _, h | .int _, .msg _, _, h => by simp [shape] at h
  | .enum _ _, .arr _, _, h | .enum _ _, .msg _, _, h => by simp [shape] at h
  | .array _ _ _, .int _, _, h | .array _ _ _, .msg _, _, h => by simp [shape] at h
  | .msg _ _, .int _, _, h | .msg _ _, .arr _, _, h => by simp [shape] at h
theorem writes_cfields (be : Bool) : ∀ (fs : List (Nat × Ty)) (vs : List Val), wfFields fs = true →
    shapeFields fs vs = true → Writes (encFields be fs vs) (Spec.bitsFields fs vs)
  | [], [], _, _ => by simpa [Spec.bitsFields] using writes_cfields_nil be []
  | (_, t) :: fs, v :: vs, hwf, h => by
    simp only [wfFields, Bool.and_eq_true] at hwf
    simp only [shapeFields, Bool.and_eq_true] at h
    have h1 := writes_cenc be t v hwf.1 h.1
    have h2 := writes_cfields be fs vs hwf.2 h.2
    have := Writes.seq h1 h2
    simp only [Spec.bitsFields]
    refine Writes.congr (fun s i => ?_) this
    simp only [encFields]
    cases enc be t v s i <;> rfl
  | [], _ :: _, _, h => by simp [shapeFields] at h
  | _ :: _, [], _, h => by simp [shapeFields] at h
end

/-- **C standard mode, both builds**: `Encode<Msg>` on a zeroed buffer of `⌈N/8⌉` bytes never
leaves it (no `.oob`) and writes exactly the specified bytes; the cells' bits above each field's
width do not matter (any `shape`d value). -/
theorem cencode_eq_spec (be : Bool) (t : Ty) (v : Val) (hwf : t.wf = true) (h : shape t v = true) :
    encode be t v = .ok (Spec.encode t v) := by
  have hw := writes_cenc be t v hwf h
  have hlen := bits_length t v h
  have hz : ∀ p, 0 ≤ p → (bytesToNat (zeros (nbytes t.nbits))).testBit p = false := by
    intro p _; rw [bytesToNat_zeros]; simp
  have hroom : 0 + (Spec.bits t v).length ≤ 8 * (zeros (nbytes t.nbits)).length := by
    simp [zeros, hlen, nbytes]; omega
  obtain ⟨s', e, a, l, b⟩ := hw (zeros (nbytes t.nbits)) 0 (zeros_allBytes _) hroom hz
  unfold encode
  rw [e]
  simp only
  congr 1
  unfold Spec.encode
  apply eq_of_bits _ _ a (natToBytes_allBytes _ _)
  · rw [l, natToBytes_length]; simp [zeros]
  · intro p
    rw [b p, bytesToNat_zeros, bytesToNat_natToBytes, Nat.testBit_mod_two_pow, bitsToNat_testBit]
    simp only [Nat.zero_testBit, Bool.false_or, Nat.zero_le, decide_true, Bool.true_and, Nat.sub_zero,
      Nat.zero_add]
    by_cases hp : p < (Spec.bits t v).length
    · have : p < 8 * nbytes t.nbits := by rw [hlen] at hp; unfold nbytes; omega
      simp [hp, this]
    · simp [hp, bitAt_of_le _ _ (Nat.le_of_not_lt hp)]

end Bp.CRt
