import BpModel.Model.Expr
/-!
# The parser inverts the printer: precedence, left associativity and grouping are the ordinary ones
-/
namespace Bp.Expr

theorem Op.prec_pos (o : Op) : 1 ≤ o.prec := by cases o <;> decide

-- relational (fuel-free) semantics of the parser
mutual
inductive PAtom : List Tok → E → List Tok → Prop
  | num {n ts} : PAtom (.num n :: ts) (.num n) ts
  | ref {s ts} : PAtom (.ref s :: ts) (.ref s) ts
  | paren {ts e ts'} : PExpr 1 ts e (.rp :: ts') → PAtom (.lp :: ts) e ts'
inductive PExpr : Nat → List Tok → E → List Tok → Prop
  | mk {p ts l ts1 e ts2} : PAtom ts l ts1 → PLoop p l ts1 e ts2 → PExpr p ts e ts2
inductive PLoop : Nat → E → List Tok → E → List Tok → Prop
  | step {p o l ts r ts1 e ts2} : o.prec ≥ p → PExpr (o.prec + 1) ts r ts1 →
      PLoop p (.bin o l r) ts1 e ts2 → PLoop p l (.op o :: ts) e ts2
  | stopOp {p o l ts} : o.prec < p → PLoop p l (.op o :: ts) l (.op o :: ts)
  | stopOther {p l ts} : (∀ o ts', ts ≠ .op o :: ts') → PLoop p l ts l ts
end

/-- the continuation does not start with an operator of precedence ≥ k -/
def Stops (k : Nat) : List Tok → Prop
  | .op o :: _ => o.prec < k
  | _ => True

theorem Stops.mono {k k' ts} (h : Stops k ts) (hk : k ≤ k') : Stops k' ts := by
  cases ts with
  | nil => trivial
  | cons t ts => cases t <;> simp_all [Stops]; omega

theorem PLoop.stop {p l ts} (h : Stops p ts) : PLoop p l ts l ts := by
  cases ts with
  | nil => exact .stopOther (by intro o ts' h; cases h)
  | cons t ts =>
    cases t with
    | op o => exact .stopOp (by simpa [Stops] using h)
    | num n => exact .stopOther (by intro o ts' h; cases h)
    | ref s => exact .stopOther (by intro o ts' h; cases h)
    | lp => exact .stopOther (by intro o ts' h; cases h)
    | rp => exact .stopOther (by intro o ts' h; cases h)

theorem K : ∀ (e : E) (p q : Nat) (rest : List Tok) (e' : E) (rest' : List Tok),
    p ≤ q → Stops (q + 1) rest → PLoop p e rest e' rest' → PExpr p (pr q e ++ rest) e' rest'
  | .num n, p, q, rest, e', rest', _, _, hl => by
    simpa [pr] using PExpr.mk PAtom.num hl
  | .ref s, p, q, rest, e', rest', _, _, hl => by
    simpa [pr] using PExpr.mk PAtom.ref hl
  | .bin o l r, p, q, rest, e', rest', hpq, hs, hl => by
    have fit : ∀ (p' : Nat) (rest1 : List Tok) (e1 : E) (rest1' : List Tok), p' ≤ o.prec →
        Stops (o.prec + 1) rest1 → PLoop p' (.bin o l r) rest1 e1 rest1' →
        PExpr p' (inner (pr o.prec l) (pr (o.prec + 1) r) o ++ rest1) e1 rest1' := by
      intro p' rest1 e1 rest1' hp' hs1 hl1
      have hr : PExpr (o.prec + 1) (pr (o.prec + 1) r ++ rest1) r rest1 :=
        K r (o.prec + 1) (o.prec + 1) rest1 r rest1 (Nat.le_refl _) (hs1.mono (by omega)) (PLoop.stop hs1)
      have hloop : PLoop p' l (.op o :: (pr (o.prec + 1) r ++ rest1)) e1 rest1' :=
        PLoop.step hp' hr hl1
      have := K l p' o.prec (.op o :: (pr (o.prec + 1) r ++ rest1)) e1 rest1' hp'
        (by simp [Stops]) hloop
      simpa [inner, List.append_assoc] using this
    by_cases hq : o.prec < q
    · have hin : PExpr 1 (inner (pr o.prec l) (pr (o.prec + 1) r) o ++ (.rp :: rest)) (.bin o l r) (.rp :: rest) :=
        fit 1 (.rp :: rest) (.bin o l r) (.rp :: rest) o.prec_pos (by simp [Stops])
          (PLoop.stopOther (by intro o' ts' h; cases h))
      have : PExpr p (.lp :: (inner (pr o.prec l) (pr (o.prec + 1) r) o ++ (.rp :: rest))) e' rest' :=
        PExpr.mk (PAtom.paren hin) hl
      simpa [pr, hq, List.append_assoc] using this
    · have := fit p rest e' rest' (by omega) (hs.mono (by omega)) hl
      simpa [pr, hq] using this

theorem parse_print_rel (e : E) (p : Nat) (rest : List Tok) (h : Stops p rest) :
    PExpr p (pr p e ++ rest) e rest :=
  K e p p rest e rest (Nat.le_refl _) (h.mono (by omega)) (PLoop.stop h)

mutual
theorem adeqAtom : ∀ {ts e ts'}, PAtom ts e ts' → ∃ N, ∀ f, N ≤ f → parseAtom f ts = some (e, ts')
  | _, _, _, .num => ⟨1, by intro f hf; cases f with | zero => omega | succ f => simp [parseAtom]⟩
  | _, _, _, .ref => ⟨1, by intro f hf; cases f with | zero => omega | succ f => simp [parseAtom]⟩
  | _, _, _, .paren h => by
    obtain ⟨N, hN⟩ := adeqExpr h
    refine ⟨N + 1, ?_⟩
    intro f hf
    cases f with
    | zero => omega
    | succ f => simp [parseAtom, hN f (by omega)]
theorem adeqExpr : ∀ {p ts e ts'}, PExpr p ts e ts' → ∃ N, ∀ f, N ≤ f → parseExpr f p ts = some (e, ts')
  | _, _, _, _, .mk ha hl => by
    obtain ⟨N1, h1⟩ := adeqAtom ha
    obtain ⟨N2, h2⟩ := adeqLoop hl
    refine ⟨max N1 N2 + 1, ?_⟩
    intro f hf
    cases f with
    | zero => omega
    | succ f => simp [parseExpr, h1 f (by omega), h2 f (by omega)]
theorem adeqLoop : ∀ {p l ts e ts'}, PLoop p l ts e ts' → ∃ N, ∀ f, N ≤ f → parseLoop f p l ts = some (e, ts')
  | _, _, _, _, _, .step hp he hl => by
    obtain ⟨N1, h1⟩ := adeqExpr he
    obtain ⟨N2, h2⟩ := adeqLoop hl
    refine ⟨max N1 N2 + 1, ?_⟩
    intro f hf
    cases f with
    | zero => omega
    | succ f => simp [parseLoop, hp, h1 f (by omega), h2 f (by omega)]
  | p, _, _, _, _, .stopOp (o := o) hp => by
    refine ⟨1, ?_⟩
    intro f hf
    cases f with
    | zero => omega
    | succ f =>
      have : ¬ (o.prec ≥ p) := by omega
      simp [parseLoop, this]
  | _, l, ts, _, _, .stopOther h => by
    refine ⟨1, ?_⟩
    intro f hf
    cases f with
    | zero => omega
    | succ f =>
      cases ts with
      | nil => simp [parseLoop]
      | cons t ts =>
        cases t with
        | op o => exact absurd rfl (h o ts)
        | num n => simp [parseLoop]
        | ref s => simp [parseLoop]
        | lp => simp [parseLoop]
        | rp => simp [parseLoop]
end

/-- the executable parser, given enough fuel, inverts the printer -/
theorem parseExpr_print (e : E) : ∃ N, ∀ f, N ≤ f → parseExpr f 1 (pr 1 e) = some (e, []) := by
  have := parse_print_rel e 1 [] trivial
  simp only [List.append_nil] at this
  exact adeqExpr this

end Bp.Expr
