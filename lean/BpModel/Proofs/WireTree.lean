import BpModel.Model.Wire
import BpModel.Proofs.CDecTree
/-!
# Generic tree theorems for straight-line (optimization mode) encoders / decoders
-/
namespace Bp.Wire
open Bp PyRt

mutual
theorem writes_encWith (L : Nat → Int → Act) (hL : ∀ n, n ≤ 64 → ∀ x, Writes (L n x) (leafBits n x)) :
    ∀ (t : Ty) (v : Val), noExt t = true → t.wf = true → shape t v = true →
    Writes (encWith L t v) (Spec.bits t v)
  | .bool, .int x, _, _, _ => by simpa [encWith, Spec.bits] using hL 1 (by decide) x
  | .byte, .int x, _, _, _ => by simpa [encWith, Spec.bits] using hL 8 (by decide) x
  | .uint n, .int x, _, hwf, _ => by
    simp only [Ty.wf, Bool.and_eq_true, decide_eq_true_eq] at hwf
    simpa [encWith, Spec.bits] using hL n hwf.2 x
  | .int n, .int x, _, hwf, _ => by
    simp only [Ty.wf, Bool.and_eq_true, decide_eq_true_eq] at hwf
    simpa [encWith, Spec.bits] using hL n hwf.2 x
  | .enum n _, .int x, _, hwf, _ => by
    simp only [Ty.wf, Bool.and_eq_true, decide_eq_true_eq] at hwf
    simpa [encWith, Spec.bits] using hL n hwf.1.1.2 x
  | .alias t, v, hne, hwf, h => by
    simp only [Ty.wf, Bool.and_eq_true] at hwf
    have := writes_encWith L hL t v (by simpa [noExt] using hne) hwf.2 (by simpa [shape] using h)
    simpa [encWith, Spec.bits] using this
  | .array ext cap e, .arr vs, hne, hwf, h => by
    simp only [noExt, Bool.and_eq_true, Bool.not_eq_true'] at hne
    simp only [Ty.wf, Bool.and_eq_true, decide_eq_true_eq] at hwf
    simp only [shape, Bool.and_eq_true, decide_eq_true_eq, List.all_eq_true] at h
    have h2 := writes_arr (encWith L e) (Spec.bits e) vs
      (fun v hv => writes_encWith L hL e v hne.2 hwf.2 (h.2 v hv))
    rw [h.1] at h2
    simpa [encWith, Spec.bits, hne.1] using h2
  | .msg ext fs, .msg vs, hne, hwf, h => by
    simp only [noExt, Bool.and_eq_true, Bool.not_eq_true'] at hne
    simp only [Ty.wf, Bool.and_eq_true] at hwf
    have h2 := writes_encFieldsWith L hL fs vs hne.2 hwf.2 (by simpa [shape] using h)
    simpa [encWith, Spec.bits, hne.1] using h2
  | .bool, .arr _, _, _, h | .bool, .msg _, _, _, h => by simp [shape] at h
  | .byte, .arr _, _, _, h | .byte, .msg _, _, _, h => by simp [shape] at h
  | .uint _, .arr _, _, _, h | .uint _, .msg _, _, _, h => by simp [shape] at h
  | .int _, .arr _, _, _, h | .int _, .msg _, _, _, h => by simp [shape] at h
  | .enum _ _, .arr _, _, _, h | .enum _ _, .msg _, _, _, h => by simp [shape] at h
  | .array _ _ _, .int _, _, _, h | .array _ _ _, .msg _, _, _, h => by simp [shape] at h
  | .msg _ _, .int _, _, _, h | .msg _ _, .arr _, _, _, h => by simp [shape] at h
theorem writes_encFieldsWith (L : Nat → Int → Act) (hL : ∀ n, n ≤ 64 → ∀ x, Writes (L n x) (leafBits n x)) :
    ∀ (fs : List (Nat × Ty)) (vs : List Val), noExtFields fs = true → wfFields fs = true →
    shapeFields fs vs = true → Writes (encFieldsWith L fs vs) (Spec.bitsFields fs vs)
  | [], [], _, _, _ => by simpa [encFieldsWith, Spec.bitsFields] using Writes.nil
  | (_, t) :: fs, v :: vs, hne, hwf, h => by
    simp only [noExtFields, Bool.and_eq_true] at hne
    simp only [wfFields, Bool.and_eq_true] at hwf
    simp only [shapeFields, Bool.and_eq_true] at h
    have h1 := writes_encWith L hL t v hne.1 hwf.1 h.1
    have h2 := writes_encFieldsWith L hL fs vs hne.2 hwf.2 h.2
    have := Writes.seq h1 h2
    simp only [Spec.bitsFields]
    refine Writes.congr (fun s i => ?_) this
    simp only [encFieldsWith]
    cases encWith L t v s i <;> rfl
  | [], _ :: _, _, _, h => by simp [shapeFields] at h
  | _ :: _, [], _, _, h => by simp [shapeFields] at h
end

theorem encodeWith_eq_spec (L : Nat → Int → Act) (hL : ∀ n, n ≤ 64 → ∀ x, Writes (L n x) (leafBits n x))
    (t : Ty) (v : Val) (hne : noExt t = true) (hwf : t.wf = true) (h : shape t v = true) :
    encodeWith L t v = .ok (Spec.encode t v) := by
  have hw := writes_encWith L hL t v hne hwf h
  have hlen := bits_length t v h
  have hz : ∀ p, 0 ≤ p → (bytesToNat (zeros (nbytes t.nbits))).testBit p = false := by
    intro p _; rw [bytesToNat_zeros]; simp
  have hroom : 0 + (Spec.bits t v).length ≤ 8 * (zeros (nbytes t.nbits)).length := by
    simp [zeros, hlen, nbytes]; omega
  obtain ⟨s', e, a, l, b⟩ := hw (zeros (nbytes t.nbits)) 0 (zeros_allBytes _) hroom hz
  unfold encodeWith
  rw [e]
  simp only
  congr 1
  unfold Spec.encode
  apply eq_of_bits _ _ a (natToBytes_allBytes _ _)
  · rw [l, natToBytes_length]; simp [zeros]
  · intro p
    rw [b p, bytesToNat_zeros, bytesToNat_natToBytes, Nat.testBit_mod_two_pow, bitsToNat_testBit]
    simp only [Nat.zero_testBit, Bool.false_or, Nat.zero_le, decide_true, Bool.true_and, Nat.sub_zero,
      Nat.zero_add]
    by_cases hp : p < (Spec.bits t v).length
    · have : p < 8 * nbytes t.nbits := by rw [hlen] at hp; unfold nbytes; omega
      simp [hp, this]
    · simp [hp, bitAt_of_le _ _ (Nat.le_of_not_lt hp)]

/-- what a dialect's leaf reader must do: unsigned and signed leaves inside the buffer -/
structure ReaderOk (D : Reader) : Prop where
  unsigned : ∀ n, n ≤ 64 → ∀ s, AllBytes s → ∀ i, i + n ≤ 8 * s.length →
    D false n s i = .ok ((readNat (bytesToNat s) i n : Nat), i + n)
  signed : ∀ n, 1 ≤ n → n ≤ 64 → ∀ s, AllBytes s → ∀ i, i + n ≤ 8 * s.length →
    D true n s i = .ok (sgn (readNat (bytesToNat s) i n) n, i + n)

theorem wdecArr_refines (f : Nat → Except Exc (Val × Nat)) (d : Nat → Option (Val × Nat))
    (h : ∀ j r, d j = some r → f j = .ok r) :
    ∀ (k i : Nat) (r : List Val × Nat), Bp.decArrWith d k i = some r → Wire.decArrWith f k i = .ok r
  | 0, i, r, hd => by
    simp only [Bp.decArrWith] at hd
    injection hd with hd
    simp [Wire.decArrWith, ← hd]
  | k+1, i, r, hd => by
    simp only [Bp.decArrWith] at hd
    cases h1 : d i with
    | none => simp [h1] at hd
    | some p =>
      obtain ⟨v, i1⟩ := p
      simp only [h1] at hd
      cases h2 : Bp.decArrWith d k i1 with
      | none => simp [h2] at hd
      | some q =>
        obtain ⟨vs, i2⟩ := q
        simp only [h2] at hd
        injection hd with hd
        have e1 := h i (v, i1) h1
        have e2 := wdecArr_refines f d h k i1 (vs, i2) h2
        simp only [Wire.decArrWith, e1, e2, ← hd]

mutual
theorem decWith_refines (D : Reader) (hD : ReaderOk D) : ∀ (t : Ty) (s : List Nat) (i : Nat) (r : Val × Nat),
    AllBytes s → noExt t = true → t.wf = true →
    Spec.dec t (bytesToNat s) (8 * s.length) i = some r → decWith D t s i = .ok r
  | .bool, s, i, r, hs, _, _, hd => by
    simp only [Spec.dec] at hd
    obtain ⟨hroom, hr⟩ := readB_map_some hd
    simp [decWith, hD.unsigned 1 (by decide) s hs i hroom, hr, Except.map]
  | .byte, s, i, r, hs, _, _, hd => by
    simp only [Spec.dec] at hd
    obtain ⟨hroom, hr⟩ := readB_map_some hd
    simp [decWith, hD.unsigned 8 (by decide) s hs i hroom, hr, Except.map]
  | .uint n, s, i, r, hs, _, hwf, hd => by
    simp only [Spec.dec] at hd
    obtain ⟨hroom, hr⟩ := readB_map_some hd
    simp only [Ty.wf, Bool.and_eq_true, decide_eq_true_eq] at hwf
    simp [decWith, hD.unsigned n hwf.2 s hs i hroom, hr, Except.map]
  | .int n, s, i, r, hs, _, hwf, hd => by
    simp only [Spec.dec] at hd
    obtain ⟨hroom, hr⟩ := readB_map_some hd
    simp only [Ty.wf, Bool.and_eq_true, decide_eq_true_eq] at hwf
    simp [decWith, hD.signed n hwf.1 hwf.2 s hs i hroom, hr, Except.map]
  | .enum n ms, s, i, r, hs, _, hwf, hd => by
    simp only [Spec.dec] at hd
    obtain ⟨hroom, hr⟩ := readB_map_some hd
    simp only [Ty.wf, Bool.and_eq_true, decide_eq_true_eq] at hwf
    simp [decWith, hD.unsigned n hwf.1.1.2 s hs i hroom, hr, Except.map]
  | .alias t, s, i, r, hs, hne, hwf, hd => by
    simp only [Ty.wf, Bool.and_eq_true] at hwf
    have := decWith_refines D hD t s i r hs (by simpa [noExt] using hne) hwf.2 (by simpa [Spec.dec] using hd)
    simpa [decWith] using this
  | .array ext cap e, s, i, r, hs, hne, hwf, hd => by
    simp only [noExt, Bool.and_eq_true, Bool.not_eq_true'] at hne
    simp only [Ty.wf, Bool.and_eq_true, decide_eq_true_eq] at hwf
    have ih : ∀ j r, Spec.dec e (bytesToNat s) (8 * s.length) j = some r →
        (fun j => decWith D e s j) j = .ok r := fun j r h => decWith_refines D hD e s j r hs hne.2 hwf.2 h
    simp only [Spec.dec, hne.1, Bool.false_eq_true, if_false] at hd
    cases h2 : Bp.decArrWith (Spec.dec e (bytesToNat s) (8 * s.length)) cap i with
    | none => simp [h2] at hd
    | some q =>
      obtain ⟨vs, i2⟩ := q
      simp only [h2] at hd
      injection hd with hd
      have e2 := wdecArr_refines (fun j => decWith D e s j) _ ih cap i (vs, i2) h2
      simp only [decWith, e2, ← hd]
  | .msg ext fs, s, i, r, hs, hne, hwf, hd => by
    simp only [noExt, Bool.and_eq_true, Bool.not_eq_true'] at hne
    simp only [Ty.wf, Bool.and_eq_true] at hwf
    simp only [Spec.dec, hne.1, Bool.false_eq_true, if_false] at hd
    cases h2 : Spec.decFields fs (bytesToNat s) (8 * s.length) i with
    | none => simp [h2] at hd
    | some q =>
      obtain ⟨vs, i2⟩ := q
      simp only [h2] at hd
      injection hd with hd
      have e2 := decFieldsWith_refines D hD fs s i (vs, i2) hs hne.2 hwf.2 h2
      simp only [decWith, e2, ← hd]
theorem decFieldsWith_refines (D : Reader) (hD : ReaderOk D) : ∀ (fs : List (Nat × Ty)) (s : List Nat) (i : Nat)
    (r : List Val × Nat), AllBytes s → noExtFields fs = true → wfFields fs = true →
    Spec.decFields fs (bytesToNat s) (8 * s.length) i = some r → decFieldsWith D fs s i = .ok r
  | [], s, i, r, _, _, _, hd => by
    simp only [Spec.decFields] at hd
    injection hd with hd
    simp [decFieldsWith, ← hd]
  | (_, t) :: fs, s, i, r, hs, hne, hwf, hd => by
    simp only [noExtFields, Bool.and_eq_true] at hne
    simp only [wfFields, Bool.and_eq_true] at hwf
    simp only [Spec.decFields] at hd
    cases h1 : Spec.dec t (bytesToNat s) (8 * s.length) i with
    | none => simp [h1] at hd
    | some p =>
      obtain ⟨v, i1⟩ := p
      simp only [h1] at hd
      cases h2 : Spec.decFields fs (bytesToNat s) (8 * s.length) i1 with
      | none => simp [h2] at hd
      | some q =>
        obtain ⟨vs, i2⟩ := q
        simp only [h2] at hd
        injection hd with hd
        have e1 := decWith_refines D hD t s i (v, i1) hs hne.1 hwf.1 h1
        have e2 := decFieldsWith_refines D hD fs s i1 (vs, i2) hs hne.2 hwf.2 h2
        simp only [decFieldsWith, e1, e2, ← hd]
end

theorem decodeWith_roundtrip (D : Reader) (hD : ReaderOk D) (t : Ty) (v : Val) (hne : noExt t = true)
    (hwf : t.wf = true) (hr : inRange t v = true) :
    decodeWith D t (Spec.encode t v) = .ok v := by
  have h1 := spec_dec_evo (Evo.refl t hwf) v hwf hr
  rw [proj_self t v (shape_of_inRange t v hr)] at h1
  have h2 := decWith_refines D hD t (Spec.encode t v) 0 _ (natToBytes_allBytes _ _) hne hwf h1
  unfold decodeWith
  simp [h2]

end Bp.Wire
