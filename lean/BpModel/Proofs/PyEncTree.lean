import BpModel.Proofs.PyEnc
/-!
# The encoder of every type tree writes `Spec.bits`, and `encode = Spec.encode`
-/
namespace Bp.PyRt
open Bp

theorem writes_fields_nil (vs : List Val) : Writes (encFields [] vs) [] :=
  Writes.congr (fun s i => by simp [encFields]) Writes.nil

mutual
theorem writes_enc : ∀ (t : Ty) (v : Val), shape t v = true → Writes (enc t v) (Spec.bits t v)
  | .bool, .int x, _ => Writes.congr (g := encLeaf 1 x) (fun s i => by simp [enc]) (by simpa [Spec.bits] using writes_leaf 1 x)
  | .byte, .int x, _ => Writes.congr (g := encLeaf 8 x) (fun s i => by simp [enc]) (by simpa [Spec.bits] using writes_leaf 8 x)
  | .uint n, .int x, _ => Writes.congr (g := encLeaf n x) (fun s i => by simp [enc]) (by simpa [Spec.bits] using writes_leaf n x)
  | .int n, .int x, _ => Writes.congr (g := encLeaf n x) (fun s i => by simp [enc]) (by simpa [Spec.bits] using writes_leaf n x)
  | .enum n _, .int x, _ => Writes.congr (g := encLeaf n x) (fun s i => by simp [enc]) (by simpa [Spec.bits] using writes_leaf n x)
  | .alias t, v, h => by
      have := writes_enc t v (by simpa [shape] using h)
      exact Writes.congr (g := enc t v) (fun s i => by simp [enc]) (by simpa [Spec.bits] using this)
  | .array ext cap e, .arr vs, h => by
      simp only [shape, Bool.and_eq_true, decide_eq_true_eq, List.all_eq_true] at h
      obtain ⟨hlen, hall⟩ := h
      have h1 := writes_prefix ext cap
      have h2 := writes_arr (enc e) (Spec.bits e) vs (fun v hv => writes_enc e v (hall v hv))
      rw [hlen] at h2
      have := Writes.seq h1 h2
      simp only [Spec.bits]
      refine Writes.congr (fun s i => ?_) this
      simp only [enc]
      cases encPrefix ext cap s i <;> rfl
  | .msg ext fs, .msg vs, h => by
      have h1 := writes_prefix ext (extBits ext + fieldsBits fs)
      have h2 := writes_fields fs vs (by simpa [shape] using h)
      have := Writes.seq h1 h2
      simp only [Spec.bits]
      refine Writes.congr (fun s i => ?_) this
      simp only [enc]
      cases encPrefix ext (extBits ext + fieldsBits fs) s i <;> rfl
  | .bool, .arr _, h | .bool, .msg _, h => by simp [shape] at h
  | .byte, .arr _, h | .byte, .msg _, h => by simp [shape] at h
  | .uint _, .arr _, h | .uint _, .msg _, h => by simp [shape] at h
  | .int _, .arr _, h | .int _, .msg _, h => by simp [shape] at h
  | .enum _ _, .arr _, h | .enum _ _, .msg _, h => by simp [shape] at h
  | .array _ _ _, .int _, h | .array _ _ _, .msg _, h => by simp [shape] at h
  | .msg _ _, .int _, h | .msg _ _, .arr _, h => by simp [shape] at h
theorem writes_fields : ∀ (fs : List (Nat × Ty)) (vs : List Val), shapeFields fs vs = true →
    Writes (encFields fs vs) (Spec.bitsFields fs vs)
  | [], [], _ => by simpa [Spec.bitsFields] using writes_fields_nil []
  | (_, t) :: fs, v :: vs, h => by
      simp only [shapeFields, Bool.and_eq_true] at h
      have h1 := writes_enc t v h.1
      have h2 := writes_fields fs vs h.2
      have := Writes.seq h1 h2
      simp only [Spec.bitsFields]
      refine Writes.congr (fun s i => ?_) this
      simp only [encFields]
      cases enc t v s i <;> rfl
  | [], _ :: _, h => by simp [shapeFields] at h
  | _ :: _, [], h => by simp [shapeFields] at h
end

mutual
theorem bits_length : ∀ (t : Ty) (v : Val), shape t v = true → (Spec.bits t v).length = t.nbits
  | .bool, .int x, _ => by simp [Spec.bits, Ty.nbits, leafBits_length]
  | .byte, .int x, _ => by simp [Spec.bits, Ty.nbits, leafBits_length]
  | .uint n, .int x, _ => by simp [Spec.bits, Ty.nbits, leafBits_length]
  | .int n, .int x, _ => by simp [Spec.bits, Ty.nbits, leafBits_length]
  | .enum n _, .int x, _ => by simp [Spec.bits, Ty.nbits, leafBits_length]
  | .alias t, v, h => by
      have := bits_length t v (by simpa [shape] using h)
      simpa [Spec.bits, Ty.nbits] using this
  | .array ext cap e, .arr vs, h => by
      simp only [shape, Bool.and_eq_true, decide_eq_true_eq, List.all_eq_true] at h
      obtain ⟨hlen, hall⟩ := h
      have hsum : ∀ (ws : List Val), (∀ v ∈ ws, shape e v = true) →
          (ws.flatMap (Spec.bits e)).length = ws.length * e.nbits := by
        intro ws
        induction ws with
        | nil => simp
        | cons w ws ih =>
          intro hw
          have h1 := bits_length e w (hw w (by simp))
          have h2 := ih (fun v hv => hw v (by simp [hv]))
          simp [List.flatMap_cons, h1, h2, Nat.add_mul]; omega
      simp only [Spec.bits, Ty.nbits, List.length_append, hsum vs hall, hlen]
      cases ext <;> simp [natBits_length, extBits]
  | .msg ext fs, .msg vs, h => by
      have := bitsFields_length fs vs (by simpa [shape] using h)
      simp only [Spec.bits, List.length_append, this, Ty.nbits]
      cases ext <;> simp [natBits_length, extBits]
  | .bool, .arr _, h | .bool, .msg _, h => by simp [shape] at h
  | .byte, .arr _, h | .byte, .msg _, h => by simp [shape] at h
  | .uint _, .arr _, h | .uint _, .msg _, h => by simp [shape] at h
  | .int _, .arr _, h | .int _, .msg _, h => by simp [shape] at h
  | .enum _ _, .arr _, h | .enum _ _, .msg _, h => by simp [shape] at h
  | .array _ _ _, .int _, h | .array _ _ _, .msg _, h => by simp [shape] at h
  | .msg _ _, .int _, h | .msg _ _, .arr _, h => by simp [shape] at h
theorem bitsFields_length : ∀ (fs : List (Nat × Ty)) (vs : List Val), shapeFields fs vs = true →
    (Spec.bitsFields fs vs).length = fieldsBits fs
  | [], [], _ => by simp [Spec.bitsFields, fieldsBits]
  | (_, t) :: fs, v :: vs, h => by
      simp only [shapeFields, Bool.and_eq_true] at h
      have h1 := bits_length t v h.1
      have h2 := bitsFields_length fs vs h.2
      simp [Spec.bitsFields, fieldsBits, h1, h2]
  | [], _ :: _, h => by simp [shapeFields] at h
  | _ :: _, [], h => by simp [shapeFields] at h
end

mutual
theorem shape_of_inRange : ∀ (t : Ty) (v : Val), inRange t v = true → shape t v = true
  | .bool, .int _, _ | .byte, .int _, _ | .uint _, .int _, _ | .int _, .int _, _
  | .enum _ _, .int _, _ => by simp [shape]
  | .alias t, v, h => by
      have := shape_of_inRange t v (by simpa [inRange] using h)
      simpa [shape] using this
  | .array ext cap e, .arr vs, h => by
      simp only [inRange, Bool.and_eq_true, decide_eq_true_eq, List.all_eq_true] at h
      simp only [shape, Bool.and_eq_true, decide_eq_true_eq, List.all_eq_true]
      exact ⟨h.1, fun v hv => shape_of_inRange e v (h.2 v hv)⟩
  | .msg ext fs, .msg vs, h => by
      have := shapeFields_of_inRange fs vs (by simpa [inRange] using h)
      simpa [shape] using this
  | .bool, .arr _, h | .bool, .msg _, h => by simp [inRange] at h
  | .byte, .arr _, h | .byte, .msg _, h => by simp [inRange] at h
  | .uint _, .arr _, h | .uint _, .msg _, h => by simp [inRange] at h
  | .int _, .arr _, h | .int _, .msg _, h => by simp [inRange] at h
  | .enum _ _, .arr _, h | .enum _ _, .msg _, h => by simp [inRange] at h
  | .array _ _ _, .int _, h | .array _ _ _, .msg _, h => by simp [inRange] at h
  | .msg _ _, .int _, h | .msg _ _, .arr _, h => by simp [inRange] at h
theorem shapeFields_of_inRange : ∀ (fs : List (Nat × Ty)) (vs : List Val),
    inRangeFields fs vs = true → shapeFields fs vs = true
  | [], [], _ => by simp [shapeFields]
  | (_, t) :: fs, v :: vs, h => by
      simp only [inRangeFields, Bool.and_eq_true] at h
      simp only [shapeFields, Bool.and_eq_true]
      exact ⟨shape_of_inRange t v h.1, shapeFields_of_inRange fs vs h.2⟩
  | [], _ :: _, h => by simp [inRangeFields] at h
  | _ :: _, [], h => by simp [inRangeFields] at h
end

/-- two byte lists of equal length with the same bits are equal -/
theorem eq_of_bits (a b : List Nat) (ha : AllBytes a) (hb : AllBytes b) (hl : a.length = b.length)
    (h : ∀ p, (bytesToNat a).testBit p = (bytesToNat b).testBit p) : a = b := by
  have := Nat.eq_of_testBit_eq h
  rw [← natToBytes_bytesToNat a ha, ← natToBytes_bytesToNat b hb, hl, this]

/-- **the generated `encode()` returns exactly the specified bytes** (for every value of the right
shape — in-range or not — so also C07's masking claim) -/
theorem encode_eq_spec (t : Ty) (v : Val) (h : shape t v = true) :
    encode t v = .ok (Spec.encode t v) := by
  have hw := writes_enc t v h
  have hlen := bits_length t v h
  have hz : ∀ p, 0 ≤ p → (bytesToNat (zeros (nbytes t.nbits))).testBit p = false := by
    intro p _; rw [bytesToNat_zeros]; simp
  have hroom : 0 + (Spec.bits t v).length ≤ 8 * (zeros (nbytes t.nbits)).length := by
    simp [zeros, hlen, nbytes]; omega
  obtain ⟨s', e, a, l, b⟩ := hw (zeros (nbytes t.nbits)) 0 (zeros_allBytes _) hroom hz
  unfold encode
  rw [e]
  simp only
  congr 1
  unfold Spec.encode
  apply eq_of_bits _ _ a (natToBytes_allBytes _ _)
  · rw [l, natToBytes_length]; simp [zeros]
  · intro p
    rw [b p, bytesToNat_zeros, bytesToNat_natToBytes, Nat.testBit_mod_two_pow, bitsToNat_testBit]
    simp only [Nat.zero_testBit, Bool.false_or, Nat.zero_le, decide_true, Bool.true_and, Nat.sub_zero,
      Nat.zero_add]
    by_cases hp : p < (Spec.bits t v).length
    · have : p < 8 * nbytes t.nbits := by rw [hlen] at hp; unfold nbytes; omega
      simp [hp, this]
    · simp [hp, bitAt_of_le _ _ (Nat.le_of_not_lt hp)]

end Bp.PyRt
