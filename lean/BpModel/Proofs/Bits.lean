import BpModel.Model.Bits
/-!
# Byte lists and their Nat view: abstraction lemmas
-/
namespace Bp

theorem bytesToNat_testBit : ∀ (bs : List Nat), AllBytes bs → ∀ p,
    (bytesToNat bs).testBit p = (bs.getD (p / 8) 0).testBit (p % 8)
  | [], _, p => by simp [bytesToNat]
  | b :: bs, h, p => by
    have hb : b < 2^8 := h b (by simp)
    have ih := bytesToNat_testBit bs (fun x hx => h x (by simp [hx]))
    have e : b + 256 * bytesToNat bs = 2^8 * bytesToNat bs + b := by omega
    rw [bytesToNat, e, Nat.testBit_two_pow_mul_add _ hb]
    by_cases hp : p < 8
    · have : p / 8 = 0 := by omega
      have : p % 8 = p := by omega
      simp [*]
    · have h1 : p / 8 = (p - 8) / 8 + 1 := by omega
      have h2 : (p - 8) % 8 = p % 8 := by omega
      simp [hp, ih, h1, h2]

theorem streamBit_eq (bs : List Nat) (h : AllBytes bs) (k : Nat) :
    streamBit bs k = (bytesToNat bs).testBit k := by
  rw [bytesToNat_testBit bs h]; rfl

theorem AllBytes.tail {b : Nat} {bs : List Nat} (h : AllBytes (b :: bs)) : AllBytes bs :=
  fun x hx => h x (by simp [hx])

theorem bytesToNat_lt : ∀ (bs : List Nat), AllBytes bs → bytesToNat bs < 2^(8 * bs.length)
  | [], _ => by simp [bytesToNat]
  | b :: bs, h => by
    have hb : b < 256 := h b (by simp)
    have ih := bytesToNat_lt bs h.tail
    have e : 2^(8 * (b :: bs).length) = 256 * 2^(8 * bs.length) := by
      rw [List.length_cons, Nat.mul_add, Nat.pow_add]; simp [Nat.mul_comm]
    rw [bytesToNat, e]; omega

theorem orAt_length : ∀ (bs : List Nat) (i d : Nat), (orAt bs i d).length = bs.length
  | [], _, _ => rfl
  | _ :: _, 0, _ => rfl
  | _ :: bs, i+1, d => by simp [orAt, orAt_length bs i d]

theorem orAt_allBytes : ∀ (bs : List Nat) (i d : Nat), AllBytes bs → d < 256 → AllBytes (orAt bs i d)
  | [], _, _, h, _ => by simpa [orAt] using h
  | b :: bs, 0, d, h, hd => by
    intro x hx
    simp only [orAt, List.mem_cons] at hx
    rcases hx with rfl | hx
    · have hb : b < 2^8 := h b (by simp)
      exact Nat.or_lt_two_pow hb hd
    · exact h x (by simp [hx])
  | b :: bs, i+1, d, h, hd => by
    intro x hx
    simp only [orAt, List.mem_cons] at hx
    rcases hx with rfl | hx
    · exact h _ (by simp)
    · exact orAt_allBytes bs i d h.tail hd x hx

theorem orAt_getD : ∀ (bs : List Nat) (i d k : Nat), i < bs.length →
    (orAt bs i d).getD k 0 = if k = i then bs.getD k 0 ||| d else bs.getD k 0
  | [], _, _, _, h => by simp at h
  | b :: bs, 0, d, k, _ => by
    cases k <;> simp [orAt]
  | b :: bs, i+1, d, k, h => by
    cases k with
    | zero => simp [orAt]
    | succ k =>
      have := orAt_getD bs i d k (by simpa using h)
      simp only [List.getD_eq_getElem?_getD] at this
      simp [orAt, this]

theorem bytesToNat_orAt (bs : List Nat) (i d : Nat) (h : AllBytes bs) (hd : d < 256) (hi : i < bs.length) :
    bytesToNat (orAt bs i d) = bytesToNat bs ||| (d <<< (8 * i)) := by
  apply Nat.eq_of_testBit_eq
  intro p
  rw [bytesToNat_testBit _ (orAt_allBytes bs i d h hd), Nat.testBit_or, bytesToNat_testBit _ h,
    Nat.testBit_shiftLeft, orAt_getD _ _ _ _ hi]
  by_cases hk : p / 8 = i
  · have : p ≥ 8 * i := by omega
    have e : p - 8 * i = p % 8 := by omega
    simp [hk, this, e]
  · simp only [hk, if_false]
    by_cases hge : p ≥ 8 * i
    · have : d.testBit (p - 8 * i) = false := by
        apply Nat.testBit_lt_two_pow
        calc d < 2^8 := hd
          _ ≤ 2^(p - 8*i) := Nat.pow_le_pow_right (by decide) (by omega)
      simp [hge, this]
    · simp [hge]

/-- `setAt` with the OR-ed old value is `orAt` -/
theorem setAt_or_eq_orAt : ∀ (bs : List Nat) (i d old : Nat), bs[i]? = some old →
    setAt bs i (old ||| d) = orAt bs i d
  | [], _, _, _, h => by simp at h
  | b :: bs, 0, d, old, h => by simp at h; simp [setAt, orAt, h]
  | b :: bs, i+1, d, old, h => by
    simp at h; simp [setAt, orAt, setAt_or_eq_orAt bs i d old h]

theorem zeros_allBytes (n : Nat) : AllBytes (zeros n) := by
  intro b hb; simp [zeros, List.mem_replicate] at hb; omega

theorem bytesToNat_zeros : ∀ n, bytesToNat (zeros n) = 0
  | 0 => rfl
  | n+1 => by
    have := bytesToNat_zeros n
    simp only [zeros, List.replicate_succ, bytesToNat] at *
    omega

theorem natToBytes_length : ∀ (len n : Nat), (natToBytes len n).length = len
  | 0, _ => rfl
  | len+1, n => by simp [natToBytes, natToBytes_length len]

theorem natToBytes_allBytes : ∀ (len n : Nat), AllBytes (natToBytes len n)
  | 0, _ => by intro b hb; simp [natToBytes] at hb
  | len+1, n => by
    intro b hb
    simp only [natToBytes, List.mem_cons] at hb
    rcases hb with rfl | hb
    · omega
    · exact natToBytes_allBytes len _ b hb

theorem natToBytes_bytesToNat : ∀ (bs : List Nat), AllBytes bs → natToBytes bs.length (bytesToNat bs) = bs
  | [], _ => rfl
  | b :: bs, h => by
    have hb : b < 256 := h b (by simp)
    have ih := natToBytes_bytesToNat bs h.tail
    simp only [List.length_cons, natToBytes, bytesToNat]
    have e1 : (b + 256 * bytesToNat bs) % 256 = b := by omega
    have e2 : (b + 256 * bytesToNat bs) / 256 = bytesToNat bs := by omega
    rw [e1, e2, ih]

theorem bytesToNat_natToBytes : ∀ (len n : Nat), bytesToNat (natToBytes len n) = n % 2^(8*len)
  | 0, n => by simp [natToBytes, bytesToNat, Nat.mod_one]
  | len+1, n => by
    have ih := bytesToNat_natToBytes len (n / 256)
    simp only [natToBytes, bytesToNat, ih]
    have e : 2^(8*(len+1)) = 256 * 2^(8*len) := by
      rw [Nat.mul_add, Nat.pow_add]; simp [Nat.mul_comm]
    rw [e, Nat.mod_mul]

theorem bitsToNat_testBit : ∀ (c : List Bool) (p : Nat), (bitsToNat c).testBit p = bitAt c p
  | [], p => by simp [bitsToNat, bitAt]
  | b :: c, p => by
    have ih := bitsToNat_testBit c
    cases p with
    | zero =>
      simp only [bitsToNat, bitAt, List.getD_cons_zero, Nat.testBit_zero]
      cases b <;> simp <;> omega
    | succ p =>
      simp only [bitsToNat, bitAt, List.getD_cons_succ, Nat.testBit_succ]
      have : ((if b = true then 1 else 0) + 2 * bitsToNat c) / 2 = bitsToNat c := by
        cases b <;> simp <;> omega
      rw [this, ih]; rfl

theorem bitsToNat_lt : ∀ (c : List Bool), bitsToNat c < 2^c.length
  | [] => by simp [bitsToNat]
  | b :: c => by
    have := bitsToNat_lt c
    simp only [bitsToNat, List.length_cons, Nat.pow_succ]
    cases b <;> simp <;> omega

theorem bitAt_of_le (c : List Bool) (k : Nat) (h : c.length ≤ k) : bitAt c k = false := by
  simp [bitAt, List.getD_eq_getElem?_getD, List.getElem?_eq_none h]

theorem bitAt_append_left (a b : List Bool) (k : Nat) (h : k < a.length) : bitAt (a ++ b) k = bitAt a k := by
  simp [bitAt, List.getD_eq_getElem?_getD, List.getElem?_append_left h]

theorem bitAt_append_right (a b : List Bool) (k : Nat) (h : a.length ≤ k) :
    bitAt (a ++ b) k = bitAt b (k - a.length) := by
  simp [bitAt, List.getD_eq_getElem?_getD, List.getElem?_append_right h]

end Bp
