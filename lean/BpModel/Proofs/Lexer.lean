import BpModel.Model.Lexer
namespace Bp.Lexer

/-- every backslash is followed by a character -/
def wellEsc : List Char → Bool
  | [] => true
  | [c] => c ≠ '\\'
  | c :: d :: r => if c = '\\' then wellEsc r else wellEsc (d :: r)

/-- the escape loop as a structural recursion over the text that is left -/
def escRec : List Char → Except EscErr (List Char)
  | [] => .ok []
  | [c] => if c = '\\' then .error .indexError else .ok [c]
  | c :: d :: r =>
    if c = '\\' then
      match escTable d with
      | some x => (escRec r).map (x :: ·)
      | none => .error .invalidEscapingChar
    else (escRec (d :: r)).map (c :: ·)

theorem map_append_cons (val : List Char) (x : Char) (e : Except EscErr (List Char)) :
    (e.map (x :: ·)).map (val ++ ·) = e.map ((val ++ [x]) ++ ·) := by
  cases e <;> simp [Except.map]

/-- the index loop computes the structural recursion; fuel `len - i` is enough -/
theorem escLoop_eq (s : List Char) : ∀ (f i : Nat) (val : List Char), s.length - i ≤ f →
    escLoop s f i val = (escRec (s.drop i)).map (val ++ ·)
  | 0, i, val, h => by
    have hi : ¬ i < s.length := by omega
    have : s.drop i = [] := List.drop_eq_nil_of_le (by omega)
    simp [escLoop, hi, this, escRec, Except.map]
  | f+1, i, val, h => by
    unfold escLoop
    by_cases hi : i < s.length
    · simp only [hi, if_true]
      have hd : s.drop i = s[i] :: s.drop (i + 1) := (List.drop_eq_getElem_cons hi)
      have hg : s[i]? = some s[i] := List.getElem?_eq_getElem hi
      rw [hg]
      simp only
      by_cases hc : s[i] = '\\'
      · simp only [hc, if_true]
        by_cases hi1 : i + 1 < s.length
        · have hd1 : s.drop (i + 1) = s[i+1] :: s.drop (i + 2) := (List.drop_eq_getElem_cons hi1)
          have hg1 : s[i+1]? = some s[i+1] := List.getElem?_eq_getElem hi1
          rw [hg1, hd, hd1]
          simp only [escRec, hc, if_true]
          cases ht : escTable s[i+1] with
          | none => simp [Except.map]
          | some r =>
            simp only
            rw [escLoop_eq s f (i + 2) (val ++ [r]) (by omega), map_append_cons]
        · have hg1 : s[i+1]? = none := List.getElem?_eq_none (by omega)
          have hd1 : s.drop (i + 1) = [] := List.drop_eq_nil_of_le (by omega)
          rw [hg1, hd, hd1]
          simp [escRec, hc, Except.map]
      · simp only [hc, if_false]
        rw [escLoop_eq s f (i + 1) (val ++ [s[i]]) (by omega), hd]
        cases hr : s.drop (i + 1) with
        | nil => simp [escRec, hc, Except.map]
        | cons d r => simp only [escRec, hc, if_false]; rw [map_append_cons]
    · have : s.drop i = [] := List.drop_eq_nil_of_le (by omega)
      simp [hi, this, escRec, Except.map]

theorem escRec_no_index : ∀ (s : List Char), wellEsc s = true → escRec s ≠ .error .indexError ∧ escRec s ≠ .error .outOfFuel
  | [], _ => by simp [escRec]
  | [c], h => by
    have : c ≠ '\\' := by simpa [wellEsc] using h
    simp [escRec, this]
  | c :: d :: r, h => by
    unfold escRec
    by_cases hc : c = '\\'
    · simp only [hc, if_true]
      have hr : wellEsc r = true := by simpa [wellEsc, hc] using h
      have ih := escRec_no_index r hr
      cases ht : escTable d with
      | none => simp
      | some x =>
        simp only
        cases he : escRec r with
        | ok v => simp [Except.map]
        | error e => rw [he] at ih; simpa [Except.map] using ih
    · simp only [hc, if_false]
      have hr : wellEsc (d :: r) = true := by simpa [wellEsc, hc] using h
      have ih := escRec_no_index (d :: r) hr
      cases he : escRec (d :: r) with
      | ok v => simp [Except.map]
      | error e => rw [he] at ih; simpa [Except.map] using ih

end Bp.Lexer

namespace Bp.Lexer

theorem wellEsc_cons_ne {c : Char} (hc : c ≠ '\\') (b : List Char) (h : wellEsc b = true) : wellEsc (c :: b) = true := by
  cases b with
  | nil => simp [wellEsc, hc]
  | cons d r => simp [wellEsc, hc, h]

/-- what the token regular expression matches is well-escaped -/
theorem matchBody_wellEsc (cs : List Char) : ∀ b r, matchBody cs = some (b, r) → wellEsc b = true := by
  fun_induction matchBody cs <;> intro b r h
  all_goals (try simp_all)
  case case2 => simp [wellEsc]
  case case4 ih => obtain ⟨rfl, _⟩ := h; simpa [wellEsc] using ih
  case case8 c rest b' r' hq hne1 hne2 hnl hm ih =>
    obtain ⟨rfl, _⟩ := h
    refine wellEsc_cons_ne ?_ b' ih
    intro e
    cases rest with
    | nil => exact hne2 e rfl
    | cons d t => exact hne1 d t e rfl

/-- **no internal error in the escape loop**: whatever the token regular expression matched, the
index loop ends with the unescaped value or with `InvalidEscapingChar` — never with an
out-of-range index and never without terminating -/
theorem lexString_total (cs : List Char) (res : Except EscErr (List Char)) (rest : List Char)
    (h : lexString cs = some (res, rest)) : res ≠ .error .indexError ∧ res ≠ .error .outOfFuel := by
  unfold lexString at h
  cases hm : matchBody cs with
  | none => simp [hm] at h
  | some br =>
    obtain ⟨body, r⟩ := br
    simp only [hm, Option.some.injEq, Prod.mk.injEq] at h
    obtain ⟨rfl, _⟩ := h
    rw [escLoop_eq body body.length 0 [] (by omega)]
    have := escRec_no_index body (matchBody_wellEsc cs body r hm)
    simp only [List.drop_zero]
    cases he : escRec body with
    | ok v => simp [Except.map]
    | error e => rw [he] at this; simpa [Except.map] using this

end Bp.Lexer
