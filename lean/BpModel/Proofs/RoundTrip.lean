import BpModel.Proofs.PyDecTree
/-!
# Round trip and forward compatibility, assembled
-/
namespace Bp
open PyRt

theorem holds_encode (t : Ty) (v : Val) (hv : shape t v = true) :
    HoldsBits (Spec.bits t v) (bytesToNat (Spec.encode t v)) 0 := by
  intro k hk
  rw [bits_length t v hv] at hk
  unfold Spec.encode
  rw [bytesToNat_natToBytes, Nat.zero_add, Nat.testBit_mod_two_pow, bitsToNat_testBit]
  have : k < 8 * nbytes t.nbits := by unfold nbytes; omega
  simp [this]

mutual
theorem Evo.refl : ∀ (t : Ty), t.wf = true → Evo t t
  | .bool, _ => .bool
  | .byte, _ => .byte
  | .uint _, _ => .uint
  | .int _, _ => .int
  | .enum _ _, _ => .enum
  | .alias t, h => .alias (Evo.refl t (by simp only [Ty.wf, Bool.and_eq_true] at h; exact h.2))
  | .array ext cap e, h => by
    simp only [Ty.wf, Bool.and_eq_true, decide_eq_true_eq] at h
    exact .arr h.1.1.1 (Nat.le_refl _) (fun _ => rfl) (Evo.refl e h.2)
  | .msg ext fs, h => by
    simp only [Ty.wf, Bool.and_eq_true] at h
    exact .msg (EvoFields.refl ext fs h.2)
theorem EvoFields.refl (ext : Bool) : ∀ (fs : List (Nat × Ty)), wfFields fs = true → EvoFields ext fs fs
  | [], _ => .nil
  | (_, t) :: fs, h => by
    simp only [wfFields, Bool.and_eq_true] at h
    exact .cons (Evo.refl t h.1) (EvoFields.refl ext fs h.2)
end

mutual
/-- chains of permitted steps compose: `S1 → S2 → S3` is again a permitted evolution -/
theorem Evo.trans : ∀ {a b c : Ty}, Evo a b → Evo b c → Evo a c
  | _, _, _, .bool, .bool => .bool
  | _, _, _, .byte, .byte => .byte
  | _, _, _, .uint, .uint => .uint
  | _, _, _, .int, .int => .int
  | _, _, _, .enum, .enum => .enum
  | _, _, _, .alias h1, .alias h2 => .alias (Evo.trans h1 h2)
  | _, _, _, .arr a1 a2 a3 h1, .arr b1 b2 b3 h2 =>
    .arr a1 (Nat.le_trans a2 b2) (fun h => (a3 h).trans (b3 h)) (Evo.trans h1 h2)
  | _, _, _, .msg h1, .msg h2 => .msg (EvoFields.trans h1 h2)
theorem EvoFields.trans : ∀ {ext : Bool} {a b c : List (Nat × Ty)},
    EvoFields ext a b → EvoFields ext b c → EvoFields ext a c
  | _, _, _, _, .nil, .nil => .nil
  | _, _, _, _, .nil, .extra => .extra
  | _, _, _, _, .extra, .cons _ _ => .extra
  | _, _, _, _, .cons h1 t1, .cons h2 t2 => .cons (Evo.trans h1 h2) (EvoFields.trans t1 t2)
end

/-- elementary step 1: append fields to an extensible message -/
theorem Evo.append_fields (fs extra : List (Nat × Ty)) (h : wfFields fs = true) :
    Evo (.msg true fs) (.msg true (fs ++ extra)) := by
  refine .msg ?_
  induction fs with
  | nil => cases extra with
    | nil => exact .nil
    | cons f r => exact .extra
  | cons f fs ih =>
    obtain ⟨k, t⟩ := f
    simp only [wfFields, Bool.and_eq_true] at h
    exact .cons (Evo.refl t h.1) (ih h.2)

/-- elementary step 2: grow the capacity of an extensible array -/
theorem Evo.grow (c1 c2 : Nat) (e : Ty) (h1 : 1 ≤ c1) (h12 : c1 ≤ c2) (he : e.wf = true) :
    Evo (.array true c1 e) (.array true c2 e) :=
  .arr h1 h12 (fun h => by simp at h) (Evo.refl e he)

mutual
theorem evo_nbits_le : ∀ {a b : Ty}, Evo a b → a.nbits ≤ b.nbits
  | _, _, .bool | _, _, .byte | _, _, .uint | _, _, .int | _, _, .enum => Nat.le_refl _
  | _, _, .alias h => by simpa [Ty.nbits] using evo_nbits_le h
  | _, _, .arr (c1 := c1) (c2 := c2) _ h12 _ h => by
    have := evo_nbits_le h
    simp only [Ty.nbits]
    exact Nat.add_le_add_left (Nat.mul_le_mul h12 this) _
  | _, _, .msg h => by
    have := evoFields_bits_le h
    simp only [Ty.nbits]; omega
theorem evoFields_bits_le : ∀ {ext : Bool} {a b : List (Nat × Ty)}, EvoFields ext a b →
    fieldsBits a ≤ fieldsBits b
  | _, _, _, .nil => Nat.le_refl _
  | _, _, _, .extra => by simp [fieldsBits]
  | _, _, _, .cons h t => by
    have h1 := evo_nbits_le h
    have h2 := evoFields_bits_le t
    simp only [fieldsBits]; omega
end

mutual
theorem proj_self : ∀ (t : Ty) (v : Val), shape t v = true → Spec.proj t v = v
  | .bool, .int _, _ | .byte, .int _, _ | .uint _, .int _, _ | .int _, .int _, _ | .enum _ _, .int _, _ => by
    simp [Spec.proj]
  | .alias t, v, h => by
    have := proj_self t v (by simpa [shape] using h)
    simpa [Spec.proj] using this
  | .array _ cap e, .arr vs, h => by
    simp only [shape, Bool.and_eq_true, decide_eq_true_eq, List.all_eq_true] at h
    simp only [Spec.proj, List.take_of_length_le (Nat.le_of_eq h.1)]
    congr 1
    have : ∀ (ws : List Val), (∀ v ∈ ws, shape e v = true) → ws.map (Spec.proj e) = ws := by
      intro ws
      induction ws with
      | nil => simp
      | cons w ws ih =>
        intro hw
        simp [proj_self e w (hw w (by simp)), ih (fun v hv => hw v (by simp [hv]))]
    exact this vs h.2
  | .msg _ fs, .msg vs, h => by
    have := projFields_self fs vs (by simpa [shape] using h)
    simp [Spec.proj, this]
  | .bool, .arr _, h | .bool, .msg _, h => by simp [shape] at h
  | .byte, .arr _, h | .byte, .msg _, h => by simp [shape] at h
  | .uint _, .arr _, h | .uint _, .msg _, h => by simp [shape] at h
  | .int _, .arr _, h | .int _, .msg _, h => by simp [shape] at h
  | .enum _ _, .arr _, h | .enum _ _, .msg _, h => by simp [shape] at h
  | .array _ _ _, .int _, h | .array _ _ _, .msg _, h => by simp [shape] at h
  | .msg _ _, .int _, h | .msg _ _, .arr _, h => by simp [shape] at h
theorem projFields_self : ∀ (fs : List (Nat × Ty)) (vs : List Val), shapeFields fs vs = true →
    Spec.projFields fs vs = vs
  | [], [], _ => by simp [Spec.projFields]
  | (_, t) :: fs, v :: vs, h => by
    simp only [shapeFields, Bool.and_eq_true] at h
    simp [Spec.projFields, proj_self t v h.1, projFields_self fs vs h.2]
  | [], _ :: _, h => by simp [shapeFields] at h
  | _ :: _, [], h => by simp [shapeFields] at h
end

/-- the specification's own forward compatibility -/
theorem spec_dec_evo {S1 S2 : Ty} (hE : Evo S1 S2) (v2 : Val) (hwf : S2.wf = true)
    (hr : inRange S2 v2 = true) :
    Spec.dec S1 (bytesToNat (Spec.encode S2 v2)) (8 * (Spec.encode S2 v2).length) 0 =
      some (Spec.proj S1 v2, S2.nbits) := by
  have hs := shape_of_inRange S2 v2 hr
  have := dec_evo hE v2 (bytesToNat (Spec.encode S2 v2)) (8 * (Spec.encode S2 v2).length) 0 hwf hr
    (holds_encode S2 v2 hs)
    (by simp only [Spec.encode, natToBytes_length, nbytes]; omega)
  simpa using this

/-- the Python decoder of the older schema on the newer schema's bytes -/
theorem py_dec_evo {S1 S2 : Ty} (hE : Evo S1 S2) (v2 : Val) (hwf1 : S1.wf = true) (hz1 : enumZero S1 = true)
    (hwf2 : S2.wf = true) (hr : inRange S2 v2 = true) :
    PyRt.decode S1 (Spec.encode S2 v2) (PyRt.fresh S1) = .ok (Spec.proj S1 v2) := by
  have h1 := spec_dec_evo hE v2 hwf2 hr
  have h2 := dec_refines S1 (Spec.encode S2 v2) 0 _ (natToBytes_allBytes _ _) hwf1 hz1 h1
  unfold PyRt.decode
  have hlen : ¬ (Spec.encode S2 v2).length < nbytes S1.nbits := by
    have := evo_nbits_le hE
    simp only [Spec.encode, natToBytes_length, nbytes]; omega
  simp [hlen, h2]

end Bp
