import BpModel.Model.PyInt
import BpModel.Model.Bits
/-!
# Python integer operators: bit-level characterisation
`tb x k` is bit `k` of the infinite two's complement of `x`; `or/and/shr/shl` act bitwise on it.
-/
namespace Bp.PyInt
open Bp

@[simp] theorem tb_ofNat (n k : Nat) : tb (n : Int) k = n.testBit k := rfl
@[simp] theorem tb_ofNat' (n k : Nat) : tb (Int.ofNat n) k = n.testBit k := rfl
@[simp] theorem tb_negSucc (n k : Nat) : tb (Int.negSucc n) k = !n.testBit k := rfl

theorem andNot_testBit (n m k : Nat) : (andNot n m).testBit k = (n.testBit k && !m.testBit k) := by
  simp only [andNot, Nat.testBit_xor, Nat.testBit_and]
  cases n.testBit k <;> cases m.testBit k <;> rfl

theorem tb_or (a b : Int) (k : Nat) : tb (or a b) k = (tb a k || tb b k) := by
  cases a <;> cases b <;> simp [or, tb, andNot_testBit, Nat.testBit_or, Nat.testBit_and]
  all_goals (rename_i m n; cases m.testBit k <;> cases n.testBit k <;> rfl)

theorem tb_and (a b : Int) (k : Nat) : tb (and a b) k = (tb a k && tb b k) := by
  cases a <;> cases b <;> simp [and, tb, andNot_testBit, Nat.testBit_or, Nat.testBit_and]
  all_goals (rename_i m n; cases m.testBit k <;> cases n.testBit k <;> rfl)

theorem tb_shr (x : Int) (r k : Nat) : tb (shr x r) k = tb x (r + k) := by
  cases x with
  | ofNat m => show ((m >>> r : Nat)).testBit k = _; rw [Nat.testBit_shiftRight]; rfl
  | negSucc m => show (!((m >>> r : Nat)).testBit k) = _; rw [Nat.testBit_shiftRight]; rfl

theorem shl_ofNat (d l : Nat) : shl (d : Int) l = ((d <<< l : Nat) : Int) := by
  simp [shl, Nat.shiftLeft_eq]

theorem tb_shl_ofNat (d l k : Nat) : tb (shl (d : Int) l) k = (decide (l ≤ k) && d.testBit (k - l)) := by
  rw [shl_ofNat, tb_ofNat, Nat.testBit_shiftLeft]

/-- two ints with the same infinite two's complement are equal -/
theorem eq_of_tb_eq (a b : Int) (h : ∀ k, tb a k = tb b k) : a = b := by
  cases a with
  | ofNat m =>
    cases b with
    | ofNat n => congr 1; exact Nat.eq_of_testBit_eq h
    | negSucc n =>
      exfalso
      have h1 := h (m + n)
      have hm : m.testBit (m + n) = false :=
        Nat.testBit_lt_two_pow (Nat.lt_of_lt_of_le (Nat.lt_two_pow_self) (Nat.pow_le_pow_right (by decide) (by omega)))
      have hn : n.testBit (m + n) = false :=
        Nat.testBit_lt_two_pow (Nat.lt_of_lt_of_le (Nat.lt_two_pow_self) (Nat.pow_le_pow_right (by decide) (by omega)))
      simp [tb, hm, hn] at h1
  | negSucc m =>
    cases b with
    | ofNat n =>
      exfalso
      have h1 := h (m + n)
      have hm : m.testBit (m + n) = false :=
        Nat.testBit_lt_two_pow (Nat.lt_of_lt_of_le (Nat.lt_two_pow_self) (Nat.pow_le_pow_right (by decide) (by omega)))
      have hn : n.testBit (m + n) = false :=
        Nat.testBit_lt_two_pow (Nat.lt_of_lt_of_le (Nat.lt_two_pow_self) (Nat.pow_le_pow_right (by decide) (by omega)))
      simp [tb, hm, hn] at h1
    | negSucc n =>
      congr 1
      apply Nat.eq_of_testBit_eq
      intro k
      have := h k
      simp only [tb] at this
      cases hm : m.testBit k <;> cases hn : n.testBit k <;> simp_all

/-- the two's complement at width `W` keeps exactly the low `W` bits -/
theorem tc_testBit (x : Int) (W k : Nat) : (tc x W).testBit k = (decide (k < W) && tb x k) := by
  unfold tc
  cases x with
  | ofNat m =>
    have : (Int.ofNat m % (2:Int)^W).toNat = m % 2^W := by
      have : (Int.ofNat m % (2:Int)^W) = ((m % 2^W : Nat) : Int) := by
        simp [Int.ofNat_eq_natCast]
      rw [this, Int.toNat_natCast]
    rw [this, Nat.testBit_mod_two_pow]; rfl
  | negSucc m =>
    -- -(m+1) mod 2^W = 2^W - 1 - (m mod 2^W)
    have hpos : 0 < 2^W := Nat.pow_pos (by decide)
    have hlt : m % 2^W < 2^W := Nat.mod_lt _ hpos
    have : (Int.negSucc m % (2:Int)^W).toNat = 2^W - (m % 2^W + 1) := by
      have e : ((2:Int)^W) = ((2^W : Nat) : Int) := by norm_cast
      rw [e, Int.negSucc_emod _ (by exact_mod_cast hpos)]
      omega
    rw [this, Nat.testBit_two_pow_sub_succ hlt, Nat.testBit_mod_two_pow]
    simp only [tb]
    by_cases h : k < W <;> simp [h]

theorem tc_lt (x : Int) (W : Nat) : tc x W < 2^W := by
  unfold tc
  have hpos : (0:Int) < (2:Int)^W := Int.pow_pos (by decide)
  have h1 := Int.emod_lt_of_pos x hpos
  have h0 := Int.emod_nonneg x (Int.ne_of_gt hpos)
  have : ((x % (2:Int)^W).toNat : Int) < ((2^W : Nat) : Int) := by
    rw [Int.toNat_of_nonneg h0]; exact_mod_cast h1
  exact_mod_cast this

end Bp.PyInt
