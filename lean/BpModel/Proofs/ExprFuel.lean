import BpModel.Model.Expr
/-!
Fuel adequacy of the expression parser and tokenizer: every successful step consumes input, so the
fuel `2·|tokens| + 2` (resp. `|text|`) is never exhausted — `none` always means a syntax error,
never "ran out of steps".
-/
namespace Bp.Expr

/-- successful parses consume input -/
theorem consumes : ∀ (f : Nat),
    (∀ ts e ts', parseAtom f ts = some (e, ts') → ts'.length < ts.length) ∧
    (∀ p ts e ts', parseExpr f p ts = some (e, ts') → ts'.length < ts.length) ∧
    (∀ p l ts e ts', parseLoop f p l ts = some (e, ts') → ts'.length ≤ ts.length)
  | 0 => by simp [parseAtom, parseExpr, parseLoop]
  | f+1 => by
    obtain ⟨ihA, ihX, ihL⟩ := consumes f
    refine ⟨?_, ?_, ?_⟩
    · intro ts e ts' h
      cases ts with
      | nil => simp [parseAtom] at h
      | cons t t1 =>
        cases t with
        | num n => simp [parseAtom] at h; obtain ⟨_, rfl⟩ := h; simp
        | ref s => simp [parseAtom] at h; obtain ⟨_, rfl⟩ := h; simp
        | op o => simp [parseAtom] at h
        | rp => simp [parseAtom] at h
        | lp =>
          simp only [parseAtom] at h
          cases hx : parseExpr f 1 t1 with
          | none => simp [hx] at h
          | some r =>
            obtain ⟨e1, r1⟩ := r
            have := ihX 1 t1 e1 r1 hx
            cases r1 with
            | nil => simp [hx] at h
            | cons u r2 =>
              cases u <;> simp [hx] at h
              obtain ⟨_, rfl⟩ := h
              simp at this ⊢; omega
    · intro p ts e ts' h
      simp only [parseExpr] at h
      cases ha : parseAtom f ts with
      | none => simp [ha] at h
      | some r =>
        obtain ⟨l, t1⟩ := r
        simp only [ha] at h
        have h1 := ihA ts l t1 ha
        have h2 := ihL p l t1 e ts' h
        omega
    · intro p l ts e ts' h
      cases ts with
      | nil => simp [parseLoop] at h; obtain ⟨_, rfl⟩ := h; simp
      | cons t t1 =>
        cases t with
        | op o =>
          simp only [parseLoop] at h
          by_cases hp : o.prec ≥ p
          · simp only [hp, if_true] at h
            cases hx : parseExpr f (o.prec + 1) t1 with
            | none => simp [hx] at h
            | some r =>
              obtain ⟨r0, t2⟩ := r
              simp only [hx] at h
              have h1 := ihX _ t1 r0 t2 hx
              have h2 := ihL p _ t2 e ts' h
              simp; omega
          · simp only [hp, if_false] at h
            simp at h; obtain ⟨_, rfl⟩ := h; simp
        | num n => simp [parseLoop] at h; obtain ⟨_, rfl⟩ := h; simp
        | ref s => simp [parseLoop] at h; obtain ⟨_, rfl⟩ := h; simp
        | lp => simp [parseLoop] at h; obtain ⟨_, rfl⟩ := h; simp
        | rp => simp [parseLoop] at h; obtain ⟨_, rfl⟩ := h; simp

/-- one more unit of fuel changes nothing once the fuel covers the input -/
theorem stable : ∀ (f : Nat),
    (∀ ts, 2 * ts.length + 1 ≤ f → parseAtom (f + 1) ts = parseAtom f ts) ∧
    (∀ p ts, 2 * ts.length + 2 ≤ f → parseExpr (f + 1) p ts = parseExpr f p ts) ∧
    (∀ p l ts, 2 * ts.length + 1 ≤ f → parseLoop (f + 1) p l ts = parseLoop f p l ts)
  | 0 => by
    refine ⟨fun ts h => by omega, fun p ts h => by omega, fun p l ts h => by omega⟩
  | f+1 => by
    obtain ⟨ihA, ihX, ihL⟩ := stable f
    obtain ⟨cA, cX, cL⟩ := consumes f
    refine ⟨?_, ?_, ?_⟩
    · intro ts h
      cases ts with
      | nil => simp [parseAtom]
      | cons t t1 =>
        cases t with
        | lp =>
          simp only [parseAtom]
          rw [ihX 1 t1 (by simp at h; omega)]
        | num n => simp [parseAtom]
        | ref s => simp [parseAtom]
        | op o => simp [parseAtom]
        | rp => simp [parseAtom]
    · intro p ts h
      simp only [parseExpr]
      rw [ihA ts (by omega)]
      cases ha : parseAtom f ts with
      | none => rfl
      | some r =>
        obtain ⟨l, t1⟩ := r
        have := cA ts l t1 ha
        simp only
        exact ihL p l t1 (by omega)
    · intro p l ts h
      cases ts with
      | nil => simp [parseLoop]
      | cons t t1 =>
        cases t with
        | op o =>
          simp only [parseLoop]
          by_cases hp : o.prec ≥ p
          · simp only [hp, if_true]
            rw [ihX _ t1 (by simp at h; omega)]
            cases hx : parseExpr f (o.prec + 1) t1 with
            | none => rfl
            | some r =>
              obtain ⟨r0, t2⟩ := r
              have := cX _ t1 r0 t2 hx
              simp only
              exact ihL p _ t2 (by simp at h; omega)
          · simp only [hp, if_false]
        | num n => simp [parseLoop]
        | ref s => simp [parseLoop]
        | lp => simp [parseLoop]
        | rp => simp [parseLoop]

/-- any amount of fuel beyond `2·|ts| + 2` gives the same answer -/
theorem parseExpr_fuel (p : Nat) (ts : List Tok) : ∀ (k : Nat),
    parseExpr (2 * ts.length + 2 + k) p ts = parseExpr (2 * ts.length + 2) p ts
  | 0 => rfl
  | k+1 => by
    rw [← parseExpr_fuel p ts k]
    exact (stable (2 * ts.length + 2 + k)).2.1 p ts (by omega)

end Bp.Expr

namespace Bp.Expr

theorem takeWhileAcc_len (p : Char → Bool) : ∀ (cs acc : List Char), (takeWhileAcc p cs acc).2.length ≤ cs.length
  | [], acc => by simp [takeWhileAcc]
  | c :: cs, acc => by
    unfold takeWhileAcc
    by_cases h : p c = true
    · simp only [h, if_true]
      have := takeWhileAcc_len p cs (c :: acc)
      simp; omega
    · simp [h]

theorem takeWhileAcc_len_lt (p : Char → Bool) (c : Char) (cs acc : List Char) (h : p c = true) :
    (takeWhileAcc p (c :: cs) acc).2.length ≤ cs.length := by
  unfold takeWhileAcc
  simp only [h, if_true]
  exact takeWhileAcc_len p cs (c :: acc)

/-- the tokenizer never runs out of fuel: one unit per character is enough -/
theorem tokenize_stable : ∀ (f : Nat) (cs : List Char), cs.length ≤ f → tokenize (f + 1) cs = tokenize f cs
  | 0, [], _ => rfl
  | 0, _ :: _, h => by simp at h
  | f+1, [], _ => rfl
  | f+1, c :: cs, h => by
    have ih := tokenize_stable f
    have hcs : cs.length ≤ f := by simpa using h
    have e0 := ih cs hcs
    have e1 : tokenize (f + 1) (takeWhileAcc isHex cs.tail []).2 = tokenize f (takeWhileAcc isHex cs.tail []).2 :=
      ih _ (by
        have h1 := takeWhileAcc_len isHex cs.tail []
        have h2 : cs.tail.length ≤ cs.length := by simp
        omega)
    simp only [tokenize, e0, e1]
    by_cases hd : isDigit c = true
    · have e2 : tokenize (f + 1) (takeWhileAcc isDigit (c :: cs) []).2 = tokenize f (takeWhileAcc isDigit (c :: cs) []).2 :=
        ih _ (by have := takeWhileAcc_len_lt isDigit c cs [] hd; omega)
      simp only [e2, hd, if_true]
    · by_cases hi : isIdStart c = true
      · have e3 : tokenize (f + 1) (takeWhileAcc isIdChar (c :: cs) []).2 = tokenize f (takeWhileAcc isIdChar (c :: cs) []).2 :=
          ih _ (by
            have hic : isIdChar c = true := by simp [isIdChar, hi]
            have := takeWhileAcc_len_lt isIdChar c cs [] hic; omega)
        simp [e3, hd, hi]
      · simp [hd, hi]

theorem tokenize_fuel (cs : List Char) : ∀ (k : Nat), tokenize (cs.length + k) cs = tokenize cs.length cs
  | 0 => rfl
  | k+1 => by rw [← tokenize_fuel cs k]; exact tokenize_stable (cs.length + k) cs (by omega)

end Bp.Expr
