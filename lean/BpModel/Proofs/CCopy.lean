import BpModel.Model.CRt
/-!
# `BpCopyBufferBits` is bit-exact and stays inside its bytes (both builds)

`step_spec`: from a destination that is clean at and above the start position, every path of the
loop body ORs the next `c ≥ 1` source bits at the destination position, writes only bytes that
contain a copied bit and reads only bytes that contain a read bit.  `copyLoop_spec` is the whole
function, for every `n`, `di`, `si`.
-/
namespace Bp.CRt
open Bp

theorem rd_testBit (M b k q : Nat) : (rd M b k).testBit q = (decide (q < 8*k) && M.testBit (8*b + q)) := by
  unfold rd; rw [Nat.testBit_mod_two_pow, Nat.testBit_shiftRight]

theorem wr_testBit (M b k v p : Nat) :
    (wr M b k v).testBit p =
      if p < 8*b then M.testBit p
      else if p < 8*(b+k) then v.testBit (p - 8*b)
      else M.testBit p := by
  unfold wr
  simp only [Nat.testBit_or, Nat.testBit_mod_two_pow, Nat.testBit_shiftLeft, Nat.testBit_shiftRight]
  by_cases h1 : p < 8*b
  · have : ¬ p ≥ 8*b := by omega
    have : ¬ p ≥ 8*(b+k) := by omega
    simp [*]
  · by_cases h2 : p < 8*(b+k)
    · have : p ≥ 8*b := by omega
      have : ¬ p ≥ 8*(b+k) := by omega
      have : p - 8*b < 8*k := by omega
      simp [*]
    · have : p ≥ 8*b := by omega
      have : p ≥ 8*(b+k) := by omega
      have : ¬ p - 8*b < 8*k := by omega
      have e : 8*(b+k) + (p - 8*(b+k)) = p := by omega
      simp [*]

theorem andNotFF_testBit (v a p : Nat) :
    (andNotFF v a).testBit p = (v.testBit p && !(decide (a ≤ p) && decide (p < a + 8))) := by
  unfold andNotFF
  simp only [Nat.testBit_or, Nat.testBit_mod_two_pow, Nat.testBit_shiftLeft, Nat.testBit_shiftRight]
  by_cases h1 : p < a
  · have : ¬ a ≤ p := by omega
    have : ¬ p ≥ a + 8 := by omega
    simp [*]
  · by_cases h2 : p < a + 8
    · have : a ≤ p := by omega
      have : ¬ p ≥ a + 8 := by omega
      simp [*]
    · have : a ≤ p := by omega
      have : p ≥ a + 8 := by omega
      have e : a + 8 + (p - (a + 8)) = p := by omega
      simp [*]

/-- what one iteration establishes -/
def StepOk (S : Nat) (s t : St) : Prop :=
  ∃ c, 0 < c ∧ c ≤ s.n ∧ t.n = s.n - c ∧ t.DI = s.DI + c ∧ t.SI = s.SI + c ∧
    t.whi ≤ max s.whi ((s.DI + c + 7) / 8) ∧ t.rhi ≤ max s.rhi ((s.SI + c + 7) / 8) ∧
    (∀ p, t.D.testBit p =
      (s.D.testBit p || (decide (s.DI ≤ p) && decide (p < s.DI + c) && S.testBit (s.SI + (p - s.DI)))))

theorem step_spec (be : Bool) (S : Nat) (s : St) (hn : 0 < s.n)
    (hz : ∀ p, s.DI ≤ p → s.D.testBit p = false) : StepOk S s (step be S s) := by
  obtain ⟨n, D, dp, sp, di, si, whi, rhi⟩ := s
  simp only [St.DI, St.SI] at *
  simp only [StepOk, step, St.DI, St.SI]
  by_cases hdi : di % 8 = 0
  · simp only [hdi, if_true]
    by_cases h32 : (!be && decide (n + si % 8 ≥ 32)) = true
    · simp only [h32, if_true]
      have h32' : n + si % 8 ≥ 32 := by simp at h32; exact h32.2
      refine ⟨32 - si % 8, by omega, by omega, rfl, by omega, by omega, by omega, by omega, ?_⟩
      intro p
      simp only [wr_testBit, Nat.testBit_shiftRight, rd_testBit]
      by_cases h1 : p < 8 * (dp + di / 8)
      · have : ¬ (8 * dp + di ≤ p) := by omega
        simp [h1, this]
      · have hge : 8 * dp + di ≤ p := by omega
        have hD := hz p hge
        by_cases h2 : p < 8 * (dp + di / 8 + 4)
        · simp only [h1, h2, if_false, if_true, hD, Bool.false_or, hge, decide_true, Bool.true_and]
          by_cases h3 : p < 8 * dp + di + (32 - si % 8)
          · have e : 8 * (sp + si / 8) + (si % 8 + (p - 8 * (dp + di / 8))) = 8 * sp + si + (p - (8 * dp + di)) := by omega
            have : si % 8 + (p - 8 * (dp + di / 8)) < 8 * 4 := by omega
            simp [h3, e, this]
          · have : ¬ si % 8 + (p - 8 * (dp + di / 8)) < 8 * 4 := by omega
            simp [h3, this]
        · have : ¬ p < 8 * dp + di + (32 - si % 8) := by omega
          simp [h1, h2, hD, this]
    · simp only [h32, Bool.false_eq_true, if_false]
      by_cases h16 : (!be && decide (n + si % 8 ≥ 16)) = true
      · simp only [h16, if_true]
        have h16' : n + si % 8 ≥ 16 := by simp at h16; exact h16.2
        refine ⟨16 - si % 8, by omega, by omega, rfl, by omega, by omega, by omega, by omega, ?_⟩
        intro p
        simp only [wr_testBit, Nat.testBit_shiftRight, rd_testBit]
        by_cases h1 : p < 8 * (dp + di / 8)
        · have : ¬ (8 * dp + di ≤ p) := by omega
          simp [h1, this]
        · have hge : 8 * dp + di ≤ p := by omega
          have hD := hz p hge
          by_cases h2 : p < 8 * (dp + di / 8 + 2)
          · simp only [h1, h2, if_false, if_true, hD, Bool.false_or, hge, decide_true, Bool.true_and]
            by_cases h3 : p < 8 * dp + di + (16 - si % 8)
            · have e : 8 * (sp + si / 8) + (si % 8 + (p - 8 * (dp + di / 8))) = 8 * sp + si + (p - (8 * dp + di)) := by omega
              have : si % 8 + (p - 8 * (dp + di / 8)) < 8 * 2 := by omega
              simp [h3, e, this]
            · have : ¬ si % 8 + (p - 8 * (dp + di / 8)) < 8 * 2 := by omega
              simp [h3, this]
          · have : ¬ p < 8 * dp + di + (16 - si % 8) := by omega
            simp [h1, h2, hD, this]
      · simp only [h16, Bool.false_eq_true, if_false]
        by_cases h8 : n + si % 8 ≥ 8
        · simp only [h8, if_true]
          refine ⟨8 - si % 8, by omega, by omega, rfl, by omega, by omega, by omega, by omega, ?_⟩
          intro p
          have e255 : (255:Nat) = 2^8 - 1 := by decide
          simp only [wr_testBit, Nat.testBit_and, Nat.testBit_shiftRight, rd_testBit, e255,
            Nat.testBit_two_pow_sub_one]
          by_cases h1 : p < 8 * (dp + di / 8)
          · have : ¬ (8 * dp + di ≤ p) := by omega
            simp [h1, this]
          · have hge : 8 * dp + di ≤ p := by omega
            have hD := hz p hge
            by_cases h2 : p < 8 * (dp + di / 8 + 1)
            · simp only [h1, h2, if_false, if_true, hD, Bool.false_or, hge, decide_true, Bool.true_and]
              by_cases h3 : p < 8 * dp + di + (8 - si % 8)
              · have e : 8 * (sp + si / 8) + (si % 8 + (p - 8 * (dp + di / 8))) = 8 * sp + si + (p - (8 * dp + di)) := by omega
                have : si % 8 + (p - 8 * (dp + di / 8)) < 8 * 1 := by omega
                have : p - 8 * (dp + di / 8) < 8 := by omega
                simp [h3, e, *]
              · have : ¬ si % 8 + (p - 8 * (dp + di / 8)) < 8 * 1 := by omega
                simp [h3, this]
            · have : ¬ p < 8 * dp + di + (8 - si % 8) := by omega
              simp [h1, h2, hD, this]
        · simp only [h8, if_false]
          refine ⟨min (8 - si % 8) n, by omega, by omega, rfl, by omega, by omega, by omega, by omega, ?_⟩
          intro p
          simp only [wr_testBit, Nat.testBit_or, andNotFF_testBit, Nat.testBit_shiftRight, rd_testBit]
          by_cases h1 : p < 8 * (dp + di / 8)
          · have : ¬ (8 * dp + di ≤ p) := by omega
            simp [h1, this]
          · have hge : 8 * dp + di ≤ p := by omega
            have hD := hz p hge
            by_cases h2 : p < 8 * (dp + di / 8 + 1)
            · have hD' : D.testBit (8 * (dp + di / 8) + (p - 8 * (dp + di / 8))) = false := by
                apply hz; omega
              simp only [h1, h2, if_false, if_true, hD, hD', Bool.false_or, hge, decide_true, Bool.true_and, Bool.and_false]
              by_cases h3 : p < 8 * dp + di + min (8 - si % 8) n
              · have e : 8 * (sp + si / 8) + (si % 8 + (p - 8 * (dp + di / 8))) = 8 * sp + si + (p - (8 * dp + di)) := by omega
                have : si % 8 + (p - 8 * (dp + di / 8)) < 8 * 1 := by omega
                have : ¬ (min (8 - si % 8) n ≤ p - 8 * (dp + di / 8)) := by omega
                simp [h3, e, *]
              · have h4 : min (8 - si % 8) n ≤ p - 8 * (dp + di / 8) := by omega
                have h5 : p - 8 * (dp + di / 8) < min (8 - si % 8) n + 8 := by omega
                simp [h3, h4, h5]
            · have : ¬ p < 8 * dp + di + min (8 - si % 8) n := by omega
              simp [h1, h2, hD, this]
  · simp only [hdi, if_false]
    by_cases hch : rd S (sp + si / 8) 1 = 0
    · -- source byte is zero: nothing written, and the copied source bits are all zero
      simp only [hch, ne_eq, not_true, if_false]
      refine ⟨min (8 - di % 8) (min (8 - si % 8) n), by omega, by omega, rfl, by omega, by omega, by omega, by omega, ?_⟩
      intro p
      have hS : ∀ q, q < 8 → S.testBit (8 * (sp + si / 8) + q) = false := by
        intro q hq
        have := congrArg (fun x => x.testBit q) hch
        simp only [rd_testBit, Nat.zero_testBit] at this
        simpa [hq] using this
      by_cases h1 : 8 * dp + di ≤ p
      · by_cases h3 : p < 8 * dp + di + min (8 - di % 8) (min (8 - si % 8) n)
        · have e : 8 * sp + si + (p - (8 * dp + di)) = 8 * (sp + si / 8) + (si % 8 + (p - (8 * dp + di))) := by omega
          have := hS (si % 8 + (p - (8 * dp + di))) (by omega)
          simp [h1, h3, e, this]
        · simp [h1, h3]
      · simp [h1]
    · simp only [hch, ne_eq, not_false_eq_true, if_true]
      refine ⟨min (8 - di % 8) (min (8 - si % 8) n), by omega, by omega, rfl, by omega, by omega, by omega, by omega, ?_⟩
      intro p
      simp only [wr_testBit, Nat.testBit_or, andNotFF_testBit, Nat.testBit_shiftLeft, Nat.testBit_shiftRight, rd_testBit]
      by_cases h1 : p < 8 * (dp + di / 8)
      · have : ¬ (8 * dp + di ≤ p) := by omega
        simp [h1, this]
      · by_cases h2 : p < 8 * (dp + di / 8 + 1)
        · simp only [h1, h2, if_false, if_true]
          have e0 : 8 * (dp + di / 8) + (p - 8 * (dp + di / 8)) = p := by omega
          simp only [e0]
          by_cases hge : 8 * dp + di ≤ p
          · have hD := hz p hge
            by_cases h3 : p < 8 * dp + di + min (8 - di % 8) (min (8 - si % 8) n)
            · have a1 : p - 8 * (dp + di / 8) ≥ di % 8 := by omega
              have a2 : si % 8 + (p - 8 * (dp + di / 8) - di % 8) < 8 * 1 := by omega
              have a3 : ¬ (di % 8 + min (8 - di % 8) (min (8 - si % 8) n) ≤ p - 8 * (dp + di / 8)) := by omega
              have e : 8 * (sp + si / 8) + (si % 8 + (p - 8 * (dp + di / 8) - di % 8)) = 8 * sp + si + (p - (8 * dp + di)) := by omega
              simp [hD, hge, h3, a1, a2, a3, e]
            · have a3 : di % 8 + min (8 - di % 8) (min (8 - si % 8) n) ≤ p - 8 * (dp + di / 8) := by omega
              have a4 : p - 8 * (dp + di / 8) < di % 8 + min (8 - di % 8) (min (8 - si % 8) n) + 8 := by omega
              simp [hD, hge, h3, a3, a4]
          · have a1 : ¬ (p - 8 * (dp + di / 8) ≥ di % 8) := by omega
            simp [hge, a1]
            intro _; omega
        · have hge : 8 * dp + di ≤ p := by omega
          have : ¬ p < 8 * dp + di + min (8 - di % 8) (min (8 - si % 8) n) := by omega
          simp [h1, h2, hz p hge, this]

theorem copyLoop_spec (be : Bool) (S : Nat) : ∀ (fuel : Nat) (s : St), s.n ≤ fuel →
    (∀ p, s.DI ≤ p → s.D.testBit p = false) →
    (copyLoop be S fuel s).n = 0 ∧
    (copyLoop be S fuel s).whi ≤ max s.whi ((s.DI + s.n + 7) / 8) ∧
    (copyLoop be S fuel s).rhi ≤ max s.rhi ((s.SI + s.n + 7) / 8) ∧
    ∀ p, (copyLoop be S fuel s).D.testBit p =
      (s.D.testBit p || (decide (s.DI ≤ p) && decide (p < s.DI + s.n) && S.testBit (s.SI + (p - s.DI)))) := by
  intro fuel
  induction fuel with
  | zero =>
    intro s hf hz
    have : s.n = 0 := by omega
    refine ⟨by simp [copyLoop, this], by simp [copyLoop]; omega, by simp [copyLoop]; omega, ?_⟩
    simp [copyLoop, this]
    intro p h1 h2; omega
  | succ fuel ih =>
    intro s hf hz
    unfold copyLoop
    by_cases hn : s.n = 0
    · refine ⟨by simp [hn], by simp [hn]; omega, by simp [hn]; omega, ?_⟩
      simp [hn]
      intro p h1 h2; omega
    · simp only [hn, if_false]
      obtain ⟨c, hc0, hcn, htn, htDI, htSI, hw, hr, hbits⟩ := step_spec be S s (by omega) hz
      have hz' : ∀ p, (step be S s).DI ≤ p → (step be S s).D.testBit p = false := by
        intro p hp
        rw [hbits p, hz p (by omega)]
        have : ¬ p < s.DI + c := by omega
        simp [this]
      obtain ⟨ih1, ihw, ihr, ih2⟩ := ih (step be S s) (by omega) hz'
      refine ⟨ih1, ?_, ?_, ?_⟩
      · rw [htDI, htn] at ihw
        have : (s.DI + c + (s.n - c) + 7) / 8 = (s.DI + s.n + 7) / 8 := by congr 2; omega
        rw [this] at ihw
        have : (s.DI + c + 7) / 8 ≤ (s.DI + s.n + 7) / 8 := Nat.div_le_div_right (by omega)
        omega
      · rw [htSI, htn] at ihr
        have : (s.SI + c + (s.n - c) + 7) / 8 = (s.SI + s.n + 7) / 8 := by congr 2; omega
        rw [this] at ihr
        have : (s.SI + c + 7) / 8 ≤ (s.SI + s.n + 7) / 8 := Nat.div_le_div_right (by omega)
        omega
      · intro p
        rw [ih2 p, hbits p, htDI, htSI, htn]
        by_cases hb : s.D.testBit p
        · simp [hb]
        · simp [hb]
          by_cases h1 : s.DI ≤ p
          · by_cases h2 : p < s.DI + c
            · have : ¬ (s.DI + c ≤ p) := by omega
              have h3 : p < s.DI + s.n := by omega
              simp [h1, h2, this, h3]
            · have h4 : s.DI + c ≤ p := by omega
              have e : s.SI + c + (p - (s.DI + c)) = s.SI + (p - s.DI) := by omega
              have e2 : (p < s.DI + c + (s.n - c)) = (p < s.DI + s.n) := by
                apply propext; constructor <;> intro <;> omega
              simp [h1, h2, h4, e, e2]
          · have : ¬ (s.DI + c ≤ p) := by omega
            simp [h1, this]

/-- **`BpCopyBufferBits` is bit-exact and touches only its bytes**, for both builds: from a
destination clean at and above `di`, the result is the destination OR the `n` source bits from
`si` placed at `di`; writes stay below byte `⌈(di+n)/8⌉`, reads below byte `⌈(si+n)/8⌉`. -/
theorem copyBits_spec (be : Bool) (n D S di si : Nat) (hz : ∀ p, di ≤ p → D.testBit p = false) :
    (copyBits be n D S di si).whi ≤ (di + n + 7) / 8 ∧
    (copyBits be n D S di si).rhi ≤ (si + n + 7) / 8 ∧
    ∀ p, (copyBits be n D S di si).D.testBit p =
      (D.testBit p || (decide (di ≤ p) && decide (p < di + n) && S.testBit (si + (p - di)))) := by
  have := copyLoop_spec be S n { n, D, dp := 0, sp := 0, di, si, whi := 0, rhi := 0 } (Nat.le_refl _)
    (by simpa [St.DI] using hz)
  simp only [St.DI, St.SI, Nat.mul_zero, Nat.zero_add, Nat.zero_max] at this
  exact ⟨this.2.1, this.2.2.1, this.2.2.2⟩

/-- the two builds compute the same destination -/
theorem copyBits_build_indep (n D S di si : Nat) (hz : ∀ p, di ≤ p → D.testBit p = false) :
    (copyBits true n D S di si).D = (copyBits false n D S di si).D := by
  apply Nat.eq_of_testBit_eq
  intro p
  rw [(copyBits_spec true n D S di si hz).2.2 p, (copyBits_spec false n D S di si hz).2.2 p]

end Bp.CRt
