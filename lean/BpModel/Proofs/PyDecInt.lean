import BpModel.Proofs.PyDec
/-!
# Signed leaves: `bp.intW` wrap per chunk, then `bp_process_int`
-/
namespace Bp.PyRt
open Bp

theorem testBit_top (v W : Nat) (hW : 0 < W) (hlo : 2^(W-1) ≤ v) (hv : v < 2^W) : v.testBit (W-1) = true := by
  rw [Nat.testBit_eq_decide_div_mod_eq]
  have h2 : 2^W = 2 * 2^(W-1) := by
    have : W = (W - 1) + 1 := by omega
    rw [this, Nat.pow_succ]; simp; omega
  have hpos : 0 < 2^(W-1) := Nat.pow_pos (by decide)
  have : v / 2^(W-1) = 1 := by
    apply Nat.div_eq_of_lt_le <;> omega
  simp [this]

/-- bits of `bp.intW(v)` for a `W`-bit pattern `v` -/
theorem tb_intW (W v : Nat) (hW : 0 < W) (hv : v < 2^W) (k : Nat) :
    PyInt.tb (intW W (v : Int)) k = (v.testBit k || (decide (W ≤ k) && v.testBit (W-1))) := by
  unfold intW
  have hcast : ((v : Int) < (2:Int)^(W-1)) ↔ v < 2^(W-1) := by
    constructor
    · intro h; exact_mod_cast h
    · intro h; exact_mod_cast h
  by_cases hlt : v < 2^(W-1)
  · have htop : v.testBit (W-1) = false := Nat.testBit_lt_two_pow hlt
    simp [hcast.mpr hlt, htop]
  · have hge : 2^(W-1) ≤ v := Nat.le_of_not_lt hlt
    have htop := testBit_top v W hW hge hv
    have hneg : (v : Int) - (2:Int)^W = Int.negSucc (2^W - (v + 1)) := by
      have : ((2:Int)^W) = ((2^W : Nat) : Int) := by norm_cast
      rw [this]; omega
    have hc : ¬ ((v : Int) < (2:Int)^(W-1)) := fun h => hlt (hcast.mp h)
    simp only [hc, if_false, hneg, PyInt.tb_negSucc, Nat.testBit_two_pow_sub_succ hv, htop]
    by_cases hk : k < W
    · have : ¬ W ≤ k := by omega
      simp [hk, this]
    · have h1 : W ≤ k := by omega
      have : v.testBit k = false :=
        Nat.testBit_lt_two_pow (Nat.lt_of_lt_of_le hv (Nat.pow_le_pow_right (by decide) h1))
      simp [hk, h1, this]

theorem tb_neg_two_pow (n k : Nat) : PyInt.tb (-((2:Int)^n)) k = decide (n ≤ k) := by
  have hpos : 0 < 2^n := Nat.pow_pos (by decide)
  have : -((2:Int)^n) = Int.negSucc (2^n - 1) := by
    have : ((2:Int)^n) = ((2^n : Nat) : Int) := by norm_cast
    rw [this]; omega
  rw [this, PyInt.tb_negSucc, Nat.testBit_two_pow_sub_one]
  by_cases h : k < n <;> simp [h] <;> omega

/-- bits of the signed reading of an `n`-bit pattern: sign-extended -/
theorem tb_sgn (u n : Nat) (hn : 0 < n) (hu : u < 2^n) (k : Nat) :
    PyInt.tb (sgn u n) k = if k < n then u.testBit k else u.testBit (n-1) := by
  unfold sgn
  by_cases hs : u.testBit (n-1) = true
  · have hneg : (u : Int) - (2:Int)^n = Int.negSucc (2^n - (u + 1)) := by
      have : ((2:Int)^n) = ((2^n : Nat) : Int) := by norm_cast
      rw [this]; omega
    simp only [hs, if_true, hneg, PyInt.tb_negSucc, Nat.testBit_two_pow_sub_succ hu]
    by_cases hk : k < n <;> simp [hk]
  · have hs' : u.testBit (n-1) = false := by simpa using hs
    simp only [hs', Bool.false_eq_true, if_false, PyInt.tb_ofNat]
    by_cases hk : k < n
    · simp [hk]
    · simp only [hk, if_false]
      exact Nat.testBit_lt_two_pow (Nat.lt_of_lt_of_le hu (Nat.pow_le_pow_right (by decide) (by omega)))

theorem storageBits_ge (n : Nat) (h : n ≤ 64) : n ≤ storageBits n ∧ 0 < storageBits n := by
  unfold storageBits; split <;> (try split) <;> (try split) <;> omega

theorem procBaseDec_int (n : Nat) (hn64 : n ≤ 64) (s : List Nat) (hs : AllBytes s) (i0 : Nat) :
    ∀ (fuel : Nat) (cur : Int) (j : Nat), n - j ≤ fuel → j ≤ n → i0 + n ≤ 8 * s.length →
    ∃ cur', procBaseDec n (.int n) s fuel cur (i0 + j) j = .ok (cur', i0 + n) ∧
      ∀ k, PyInt.tb cur' k =
        (PyInt.tb cur k || (decide (j ≤ k) && decide (k < n) && (bytesToNat s).testBit (i0 + k)) ||
          (decide (storageBits n ≤ k) && decide (j < n) && decide (n = storageBits n) &&
            (bytesToNat s).testBit (i0 + n - 1))) := by
  obtain ⟨hSB, hSBpos⟩ := storageBits_ge n hn64
  obtain ⟨SB, hSBdef⟩ : ∃ SB, storageBits n = SB := ⟨_, rfl⟩
  rw [hSBdef] at hSB hSBpos ⊢
  intro fuel
  induction fuel with
  | zero =>
    intro cur j hf hj _
    have : j = n := by omega
    subst this
    refine ⟨cur, by simp [procBaseDec], ?_⟩
    intro k
    have h1 : ¬ (j ≤ k ∧ k < j) := by omega
    simp
    intro a b; omega
  | succ fuel ih =>
    intro cur j hf hj hroom
    unfold procBaseDec
    by_cases hlt : j < n
    · simp only [hlt, if_true]
      have hc0 : nbitsToCopy (i0 + j) j n ≤ n - j := by unfold nbitsToCopy; omega
      have hcpos : 0 < nbitsToCopy (i0 + j) j n := by unfold nbitsToCopy; omega
      have hc1 : nbitsToCopy (i0 + j) j n ≤ 8 - j % 8 := by unfold nbitsToCopy; omega
      have hc2 : nbitsToCopy (i0 + j) j n ≤ 8 - (i0 + j) % 8 := by unfold nbitsToCopy; omega
      generalize nbitsToCopy (i0 + j) j n = c at *
      have hi : (i0 + j) / 8 < s.length := by omega
      have hget : s[(i0 + j) / 8]? = some s[(i0 + j) / 8] := List.getElem?_eq_getElem hi
      simp only [decChunk, hget, setByte, hSBdef]
      -- the chunk value v, at its place in the field
      obtain ⟨v, hv⟩ : ∃ v, ((smartShift s[(i0 + j) / 8] ((((i0 + j) % 8 : Nat) : Int) - ((j % 8 : Nat) : Int)) &&&
          getMask (j % 8) c) <<< (j / 8 * 8)) = v := ⟨_, rfl⟩
      have hvb : ∀ k, v.testBit k =
          (decide (j ≤ k) && decide (k < j + c) && (bytesToNat s).testBit (i0 + j + (k - j))) := by
        intro k; rw [← hv]; exact decD_testBit s hs (i0 + j) j c k hi hc1 hc2
      have hvlt : v < 2^SB := by
        apply Nat.lt_pow_two_of_testBit
        intro k hk
        rw [hvb k]
        have : ¬ k < j + c := by omega
        simp [this]
      rw [PyInt.shl_ofNat, hv]
      obtain ⟨cur', e, b⟩ := ih (PyInt.or cur (intW SB (v : Int))) (j + c) (by omega) (by omega) hroom
      have e' : i0 + j + c = i0 + (j + c) := by omega
      rw [e']
      refine ⟨cur', e, ?_⟩
      intro k
      rw [b k, PyInt.tb_or, tb_intW SB v hSBpos hvlt, hvb k, hvb (SB - 1)]
      by_cases hb : PyInt.tb cur k
      · simp [hb]
      · simp only [hb, Bool.false_or]
        by_cases hSk : SB ≤ k
        · -- high (sign-extension) bits
          have a1 : ¬ k < n := by omega
          have a2 : ¬ k < j + c := by omega
          by_cases hnS : n = SB
          · subst hnS
            by_cases hlast : j + c = n
            · have e1 : i0 + j + (n - 1 - j) = i0 + n - 1 := by omega
              have b1 : j ≤ n - 1 := by omega
              have b2 : n - 1 < j + c := by omega
              have b3 : ¬ j + c < n := by omega
              simp [hSk, a1, a2, b1, b2, b3, e1, hlt]
            · have b2 : ¬ n - 1 < j + c := by omega
              have b3 : j + c < n := by omega
              simp [hSk, a1, a2, b2, b3, hlt]
          · have b2 : ¬ SB - 1 < j + c := by omega
            simp [hSk, a1, a2, b2, hnS]
        · -- field bits
          simp only [hSk, decide_false, Bool.false_and, Bool.or_false]
          by_cases h1 : j ≤ k
          · by_cases h2 : k < j + c
            · have : ¬ (j + c ≤ k) := by omega
              have h3 : k < n := by omega
              have e : i0 + j + (k - j) = i0 + k := by omega
              simp [h1, h2, this, h3, e]
            · have h4 : j + c ≤ k := by omega
              simp [h1, h2, h4]
          · have : ¬ (j + c ≤ k) := by omega
            simp [h1, this]
    · have : j = n := by omega
      subst this
      simp only [hlt, if_false]
      refine ⟨cur, rfl, ?_⟩
      intro k
      simp
      intro a b; omega

theorem processInt_spec (n : Nat) (x : Int) :
    processInt n x = if n = 8 ∨ n = 16 ∨ n = 32 ∨ n = 64 then x
      else if PyInt.tb x (n - 1) then PyInt.or x (-((2:Int)^n)) else x := by
  unfold processInt
  split
  · rfl
  · have h1 : ∀ y : Int, (PyInt.and y 1 ≠ 0) ↔ PyInt.tb y 0 = true := by
      intro y
      cases y with
      | ofNat m =>
        show (Int.ofNat (m &&& 1) ≠ 0) ↔ m.testBit 0 = true
        rw [Nat.testBit_zero, Nat.and_one_is_mod]
        constructor
        · intro h; have : m % 2 ≠ 0 := fun h0 => h (by rw [h0]; rfl)
          simp; omega
        · intro h h0
          have : m % 2 = 0 := by injection h0
          simp at h; omega
      | negSucc m =>
        show (Int.ofNat (PyInt.andNot 1 m) ≠ 0) ↔ (!m.testBit 0) = true
        have hb : ∀ k, (PyInt.andNot 1 m).testBit k = (decide (k = 0) && !m.testBit k) := by
          intro k
          rw [PyInt.andNot_testBit]
          have : (1:Nat).testBit k = decide (k = 0) := by
            have : (1:Nat) = 2^0 := rfl
            rw [this, Nat.testBit_two_pow]; simp [eq_comm]
          rw [this]
        constructor
        · intro h
          by_cases hm : m.testBit 0 = true
          · exfalso; apply h
            have : PyInt.andNot 1 m = 0 := by
              apply Nat.eq_of_testBit_eq; intro k; rw [hb k]
              by_cases hk : k = 0
              · subst hk; simp [hm]
              · simp [hk]
            rw [this]; rfl
          · simpa using hm
        · intro h h0
          have h00 : PyInt.andNot 1 m = 0 := by injection h0
          have := hb 0
          rw [h00] at this
          simp at this
          simp [this] at h
    have h2 : PyInt.tb (PyInt.shr x (n - 1)) 0 = PyInt.tb x (n - 1) := by
      rw [PyInt.tb_shr]; rfl
    by_cases hb : PyInt.tb x (n - 1) = true
    · have : PyInt.and (PyInt.shr x (n - 1)) 1 ≠ 0 := (h1 _).mpr (by rw [h2]; exact hb)
      simp [this, hb]
    · have : ¬ PyInt.and (PyInt.shr x (n - 1)) 1 ≠ 0 := fun h => hb (by rw [← h2]; exact (h1 _).mp h)
      simp [this, hb]

/-- a signed leaf decoded into a zero field is the sign-extended wire value -/
theorem decLeaf_int (n : Nat) (hn1 : 1 ≤ n) (hn64 : n ≤ 64) (s : List Nat) (hs : AllBytes s) (i : Nat)
    (hroom : i + n ≤ 8 * s.length) :
    decLeaf n (.int n) 0 s i = .ok (sgn (readNat (bytesToNat s) i n) n, i + n) := by
  obtain ⟨cur', e, b⟩ := procBaseDec_int n hn64 s hs i n 0 0 (by omega) (by omega) hroom
  unfold decLeaf
  simp only [Nat.add_zero] at e
  rw [e]
  simp only
  congr 2
  apply PyInt.eq_of_tb_eq
  intro k
  have h0 : ∀ k, PyInt.tb 0 k = false := by intro k; show (0:Nat).testBit k = false; simp
  have hW : ∀ k, (readNat (bytesToNat s) i n).testBit k = (decide (k < n) && (bytesToNat s).testBit (i + k)) :=
    readNat_testBit _ _ _
  rw [tb_sgn _ n hn1 (readNat_lt _ _ _), hW, hW, processInt_spec]
  have hn0 : 0 < n := hn1
  have hsb : storageBits n = n ↔ (n = 8 ∨ n = 16 ∨ n = 32 ∨ n = 64) := by
    unfold storageBits; split <;> (try split) <;> (try split) <;> omega
  have en1 : i + (n - 1) = i + n - 1 := by omega
  by_cases hstd : n = 8 ∨ n = 16 ∨ n = 32 ∨ n = 64
  · have hS : storageBits n = n := hsb.mpr hstd
    simp only [hstd, if_true, b k, h0, Bool.false_or, hS]
    by_cases hk : k < n
    · have : ¬ n ≤ k := by omega
      simp [hk, this]
    · have : n ≤ k := by omega
      have hn1' : n - 1 < n := by omega
      simp [hk, this, hn0, hn1', en1]
  · have hS : ¬ n = storageBits n := fun h => hstd (hsb.mp h.symm)
    simp only [hstd, if_false]
    have hcur : ∀ k, PyInt.tb cur' k = (decide (k < n) && (bytesToNat s).testBit (i + k)) := by
      intro k; rw [b k, h0]; simp [hS]
    have hn1' : n - 1 < n := by omega
    by_cases hsign : PyInt.tb cur' (n - 1) = true
    · simp only [hsign, if_true, PyInt.tb_or, tb_neg_two_pow, hcur]
      rw [hcur] at hsign
      simp only [hn1', decide_true, Bool.true_and] at hsign
      by_cases hk : k < n
      · have : ¬ n ≤ k := by omega
        simp [hk, this]
      · have : n ≤ k := by omega
        simp [hk, this, hn1', en1] at hsign ⊢
        exact hsign
    · have hsign' : PyInt.tb cur' (n - 1) = false := by simpa using hsign
      simp only [hsign', Bool.false_eq_true, if_false, hcur]
      rw [hcur] at hsign'
      simp only [hn1', decide_true, Bool.true_and] at hsign'
      by_cases hk : k < n
      · simp [hk]
      · simp [hk, hn1', hsign']

end Bp.PyRt
