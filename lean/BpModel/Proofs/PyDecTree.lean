import BpModel.Proofs.SpecDec
/-!
# The Python decoder refines the prefix-honouring specification decoder

`dec_refines`: whenever `Spec.dec` succeeds on the wire `s` (all reads inside the buffer), the
generated `decode()` run on a freshly constructed message returns the same value and cursor —
provided every enum's first declared member is 0 (otherwise the fresh message is not all-zero and
decode ORs onto it: KF-py-enum-default).
-/
namespace Bp
mutual
/-- every enum's first declared member (the Python default of the field) is 0 -/
def enumZero : Ty → Bool
  | .enum _ ms => ms.headD 0 == 0
  | .alias t => enumZero t
  | .array _ _ e => enumZero e
  | .msg _ fs => enumZeroFields fs
  | _ => true
def enumZeroFields : List (Nat × Ty) → Bool
  | [] => true
  | (_, t) :: fs => enumZero t && enumZeroFields fs
end
end Bp

namespace Bp.PyRt
open Bp

theorem readB_some {W L i n u : Nat} (h : readB W L i n = some u) : i + n ≤ L ∧ u = readNat W i n := by
  unfold readB at h
  split at h
  · injection h with h; exact ⟨by assumption, h.symm⟩
  · simp at h

theorem readB_map_some {α : Type} {W L i n : Nat} {f : Nat → α} {r : α}
    (h : (readB W L i n).map f = some r) : i + n ≤ L ∧ r = f (readNat W i n) := by
  unfold readB at h
  split at h
  · simp only [Option.map_some] at h
    injection h with h
    exact ⟨by assumption, h.symm⟩
  · simp at h

theorem decAhead_ok (s : List Nat) (hs : AllBytes s) (i : Nat) (hroom : i + 16 ≤ 8 * s.length) :
    decAhead s i = .ok (readNat (bytesToNat s) i 16, i + 16) := by
  unfold decAhead
  rw [decLeaf_uint 16 s hs i hroom]
  simp

theorem decArr_refines (f : Val → Nat → Except Exc (Val × Nat)) (d : Nat → Option (Val × Nat)) (v0 : Val)
    (h : ∀ j r, d j = some r → f v0 j = .ok r) :
    ∀ (k i : Nat) (r : List Val × Nat), Bp.decArrWith d k i = some r →
      PyRt.decArrWith f k (List.replicate k v0) i = .ok r
  | 0, i, r, hd => by
    simp only [Bp.decArrWith] at hd
    injection hd with hd
    simp [PyRt.decArrWith, ← hd]
  | k+1, i, r, hd => by
    simp only [Bp.decArrWith] at hd
    cases h1 : d i with
    | none => simp [h1] at hd
    | some p =>
      obtain ⟨v, i1⟩ := p
      simp only [h1] at hd
      cases h2 : Bp.decArrWith d k i1 with
      | none => simp [h2] at hd
      | some q =>
        obtain ⟨vs, i2⟩ := q
        simp only [h2] at hd
        injection hd with hd
        have e1 := h i (v, i1) h1
        have e2 := decArr_refines f d v0 h k i1 (vs, i2) h2
        simp only [List.replicate_succ, PyRt.decArrWith, e1, e2, ← hd]

mutual
theorem dec_refines : ∀ (t : Ty) (s : List Nat) (i : Nat) (r : Val × Nat), AllBytes s → t.wf = true →
    enumZero t = true → Spec.dec t (bytesToNat s) (8 * s.length) i = some r →
    dec t (fresh t) s i = .ok r
  | .bool, s, i, r, hs, _, _, hd => by
    simp only [Spec.dec] at hd
    obtain ⟨hroom, hr⟩ := readB_map_some hd
    simp [dec, fresh, decLeaf_bool s hs 0 i hroom, hr, Except.map]
  | .byte, s, i, r, hs, _, _, hd => by
    simp only [Spec.dec] at hd
    obtain ⟨hroom, hr⟩ := readB_map_some hd
    simp [dec, fresh, decLeaf_uint 8 s hs i hroom, hr, Except.map]
  | .uint n, s, i, r, hs, _, _, hd => by
    simp only [Spec.dec] at hd
    obtain ⟨hroom, hr⟩ := readB_map_some hd
    simp [dec, fresh, decLeaf_uint n s hs i hroom, hr, Except.map]
  | .int n, s, i, r, hs, hwf, _, hd => by
    simp only [Spec.dec] at hd
    obtain ⟨hroom, hr⟩ := readB_map_some hd
    simp only [Ty.wf, Bool.and_eq_true, decide_eq_true_eq] at hwf
    simp [dec, fresh, decLeaf_int n hwf.1 hwf.2 s hs i hroom, hr, Except.map]
  | .enum n ms, s, i, r, hs, _, hz, hd => by
    simp only [Spec.dec] at hd
    obtain ⟨hroom, hr⟩ := readB_map_some hd
    simp only [enumZero, beq_iff_eq, List.headD_eq_head?_getD] at hz
    simp [dec, fresh, hz, decLeaf_uint n s hs i hroom, hr, Except.map]
  | .alias t, s, i, r, hs, hwf, hz, hd => by
    simp only [Ty.wf, Bool.and_eq_true] at hwf
    have := dec_refines t s i r hs hwf.2 (by simpa [enumZero] using hz) (by simpa [Spec.dec] using hd)
    simpa [dec, fresh] using this
  | .array ext cap e, s, i, r, hs, hwf, hz, hd => by
    simp only [Ty.wf, Bool.and_eq_true, decide_eq_true_eq] at hwf
    obtain ⟨_, hwfe⟩ := hwf
    have hze : enumZero e = true := by simpa [enumZero] using hz
    have ih : ∀ j r, Spec.dec e (bytesToNat s) (8 * s.length) j = some r →
        (fun v j => dec e v s j) (fresh e) j = .ok r := fun j r h => dec_refines e s j r hs hwfe hze h
    cases ext with
    | true =>
      simp only [Spec.dec, if_true] at hd
      cases h1 : readB (bytesToNat s) (8 * s.length) i 16 with
      | none => simp [h1] at hd
      | some ahead =>
        obtain ⟨hroom, rfl⟩ := readB_some h1
        simp only [h1] at hd
        cases h2 : Bp.decArrWith (Spec.dec e (bytesToNat s) (8 * s.length)) cap (i + 16) with
        | none => simp [h2] at hd
        | some q =>
          obtain ⟨vs, i2⟩ := q
          simp only [h2] at hd
          injection hd with hd
          have e2 := decArr_refines (fun v j => dec e v s j) _ (fresh e) ih cap (i + 16) (vs, i2) h2
          simp only [dec, fresh, if_true, decAhead_ok s hs i hroom, e2, ← hd]
    | false =>
      simp only [Spec.dec, Bool.false_eq_true, if_false] at hd
      cases h2 : Bp.decArrWith (Spec.dec e (bytesToNat s) (8 * s.length)) cap i with
      | none => simp [h2] at hd
      | some q =>
        obtain ⟨vs, i2⟩ := q
        simp only [h2] at hd
        injection hd with hd
        have e2 := decArr_refines (fun v j => dec e v s j) _ (fresh e) ih cap i (vs, i2) h2
        simp only [dec, fresh, Bool.false_eq_true, if_false, e2, ← hd]
  | .msg ext fs, s, i, r, hs, hwf, hz, hd => by
    simp only [Ty.wf, Bool.and_eq_true] at hwf
    obtain ⟨_, hwff⟩ := hwf
    have hzf : enumZeroFields fs = true := by simpa [enumZero] using hz
    cases ext with
    | true =>
      simp only [Spec.dec, if_true] at hd
      cases h1 : readB (bytesToNat s) (8 * s.length) i 16 with
      | none => simp [h1] at hd
      | some ahead =>
        obtain ⟨hroom, rfl⟩ := readB_some h1
        simp only [h1] at hd
        cases h2 : Spec.decFields fs (bytesToNat s) (8 * s.length) (i + 16) with
        | none => simp [h2] at hd
        | some q =>
          obtain ⟨vs, i2⟩ := q
          simp only [h2] at hd
          injection hd with hd
          have e2 := decFields_refines fs s (i + 16) (vs, i2) hs hwff hzf h2
          simp only [dec, fresh, if_true, decAhead_ok s hs i hroom, e2, ← hd]
    | false =>
      simp only [Spec.dec, Bool.false_eq_true, if_false] at hd
      cases h2 : Spec.decFields fs (bytesToNat s) (8 * s.length) i with
      | none => simp [h2] at hd
      | some q =>
        obtain ⟨vs, i2⟩ := q
        simp only [h2] at hd
        injection hd with hd
        have e2 := decFields_refines fs s i (vs, i2) hs hwff hzf h2
        simp only [dec, fresh, Bool.false_eq_true, if_false, e2, ← hd]
theorem decFields_refines : ∀ (fs : List (Nat × Ty)) (s : List Nat) (i : Nat) (r : List Val × Nat),
    AllBytes s → wfFields fs = true → enumZeroFields fs = true →
    Spec.decFields fs (bytesToNat s) (8 * s.length) i = some r →
    decFields fs (freshFields fs) s i = .ok r
  | [], s, i, r, _, _, _, hd => by
    simp only [Spec.decFields] at hd
    injection hd with hd
    simp [decFields, freshFields, ← hd]
  | (_, t) :: fs, s, i, r, hs, hwf, hz, hd => by
    simp only [wfFields, Bool.and_eq_true] at hwf
    simp only [enumZeroFields, Bool.and_eq_true] at hz
    simp only [Spec.decFields] at hd
    cases h1 : Spec.dec t (bytesToNat s) (8 * s.length) i with
    | none => simp [h1] at hd
    | some p =>
      obtain ⟨v, i1⟩ := p
      simp only [h1] at hd
      cases h2 : Spec.decFields fs (bytesToNat s) (8 * s.length) i1 with
      | none => simp [h2] at hd
      | some q =>
        obtain ⟨vs, i2⟩ := q
        simp only [h2] at hd
        injection hd with hd
        have e1 := dec_refines t s i (v, i1) hs hwf.1 hz.1 h1
        have e2 := decFields_refines fs s i1 (vs, i2) hs hwf.2 hz.2 h2
        simp only [decFields, freshFields, e1, e2, ← hd]
end

end Bp.PyRt
