import BpModel.Model.Helpers
import BpModel.Model.PyRt
import BpModel.Proofs.PyInt
/-! # Bit-level characterisation of the helper arithmetic -/
namespace Bp

theorem getMask_eq (k c : Nat) : getMask k c = (2^c - 1) <<< k := by
  unfold getMask
  split
  · subst_vars; simp [Nat.shiftLeft_eq]
  · simp only [Nat.shiftLeft_eq, Nat.one_mul]
    have h1 : k + 1 + c - 1 = c + k := by omega
    have h2 : k + 1 - 1 = k := by omega
    rw [h1, h2, Nat.sub_mul, Nat.pow_add]; simp

theorem getMask_testBit (k c p : Nat) :
    (getMask k c).testBit p = (decide (k ≤ p) && decide (p < k + c)) := by
  rw [getMask_eq, Nat.testBit_shiftLeft, Nat.testBit_two_pow_sub_one]
  by_cases h : k ≤ p <;> simp [h] <;> omega

theorem getMask_lt (k c : Nat) (h : k + c ≤ 8) : getMask k c < 256 := by
  rw [getMask_eq, Nat.shiftLeft_eq]
  have h1 : 0 < 2^c := Nat.pow_pos (by decide)
  have h2 : 0 < 2^k := Nat.pow_pos (by decide)
  have h3 : (2^c - 1) * 2^k < 2^c * 2^k := Nat.mul_lt_mul_of_pos_right (by omega) h2
  have h4 : 2^c * 2^k = 2^(c+k) := by rw [Nat.pow_add]
  have h5 : 2^(c+k) ≤ 2^8 := Nat.pow_le_pow_right (by decide) (by omega)
  omega

theorem smartShift_testBit (n : Nat) (a b p : Nat) :
    (smartShift n ((a:Int) - (b:Int))).testBit p = (decide (b ≤ p + a) && n.testBit (p + a - b)) := by
  unfold smartShift
  split
  · have : ((a:Int) - b).toNat = a - b := by omega
    rw [this, Nat.testBit_shiftRight]
    have h : b ≤ p + a := by omega
    simp [h]; congr 1; omega
  · split
    · have : (-((a:Int) - b)).toNat = b - a := by omega
      rw [this, Nat.testBit_shiftLeft]
      by_cases h : b ≤ p + a
      · have : p ≥ b - a := by omega
        simp [h, this]; congr 1; omega
      · have : ¬ p ≥ b - a := by omega
        simp [h, this]
    · have : a = b := by omega
      subst this; simp

namespace PyRt

theorem and255_nonneg (y : Int) : ∃ n : Nat, PyInt.and y 255 = Int.ofNat n := by
  cases y with
  | ofNat m => exact ⟨m &&& 255, rfl⟩
  | negSucc m => exact ⟨PyInt.andNot 255 m, rfl⟩

theorem getByte_testBit (x : Int) (r p : Nat) :
    (getByte x r).testBit p = (decide (p < 8) && PyInt.tb x (r + p)) := by
  unfold getByte
  obtain ⟨n, hn⟩ := and255_nonneg (PyInt.shr x r)
  have h1 : PyInt.tb (PyInt.and (PyInt.shr x r) 255) p = n.testBit p := by rw [hn]; rfl
  rw [hn]
  show n.testBit p = _
  rw [← h1, PyInt.tb_and, PyInt.tb_shr]
  have : PyInt.tb 255 p = decide (p < 8) := by
    show (255:Nat).testBit p = _
    have : (255:Nat) = 2^8 - 1 := by decide
    rw [this, Nat.testBit_two_pow_sub_one]
  rw [this, Bool.and_comm]

end PyRt
end Bp
