import BpModel.Gen.GoHelpers
import BpModel.Proofs.BridgePy
import BpModel.Proofs.BridgeFmt
import BpModel.Proofs.CLeaf
/-!
# C19 — Go standard-mode output describes the same messages as the Python output

Go is never executed here (no toolchain).  What is proved: the Go runtime's pure arithmetic helpers,
*as `lib/go/bitproto.go` reads now* (Go-subset translator, `Gen/GoHelpers.lean`), return the same
results as the Python runtime's, *as `bp.py` reads now* (`Gen/PyHelpers.lean`), on their whole
domain (`smartShift` returns a `byte`, Python's an unbounded int: equal modulo 256, i.e. equal after
any mask ≤ 255 — Appendix B.3); the Go storage types are the smallest covering ones; and the
`<<= d; >>= d` pair the Go renderer emits sign-extends exactly like the specification.
The structural part (struct fields, size constants, processor tree, accessor tables of the generated
`.go` text vs the Python output and the schema) is tied by the correspondence check's structural
parser of both outputs.
-/
namespace Bp.C19
open Bp

/-- `getMask` (Go) = `get_mask` (Python) on the whole domain the runtimes use -/
theorem C19_getMask : ∀ k : Fin 8, ∀ c : Fin 9,
    Gen.GoHelpers.getMask k.val c.val = Gen.PyHelpers.get_mask k.val c.val := by decide +kernel

theorem C19_min (a b : Int) : Gen.GoHelpers.min a b = min a b := by
  simp only [Gen.GoHelpers.min]; split <;> omega

/-- `getNbitsToCopy` (Go) = `get_nbits_to_copy` (Python), for every cursor and width -/
theorem C19_getNbitsToCopy (i j n : Nat) (h : j ≤ n) :
    Gen.GoHelpers.getNbitsToCopy i j n = Gen.PyHelpers.get_nbits_to_copy i j n := by
  rw [Bridge.get_nbits_to_copy_eq i j n h]
  have h1 : Int.tmod (j : Int) 8 = ((j % 8 : Nat) : Int) := by
    rw [Int.tmod_eq_emod_of_nonneg (by omega)]; omega
  have h2 : Int.tmod (i : Int) 8 = ((i % 8 : Nat) : Int) := by
    rw [Int.tmod_eq_emod_of_nonneg (by omega)]; omega
  simp only [Gen.GoHelpers.getNbitsToCopy, C19_min, GoOp.sub, GoOp.mod, nbitsToCopy, h1, h2]
  omega

/-- `smartShift` (Go, byte result) = `smart_shift` (Python) modulo 256, for every byte and shift -/
theorem C19_smartShift : ∀ n : Fin 256, ∀ k : Fin 15,
    Gen.GoHelpers.smartShift n.val ((k.val : Int) - 7) =
      Gen.PyHelpers.smart_shift n.val ((k.val : Int) - 7) % 256 := by decide +kernel

/-- … hence equal after any mask ≤ 255, which is how both runtimes use it -/
theorem C19_smartShift_masked : ∀ n : Fin 256, ∀ k : Fin 15, ∀ m : Fin 9, ∀ c : Fin 9,
    PyOp.and (Gen.GoHelpers.smartShift n.val ((k.val : Int) - 7)) (Gen.PyHelpers.get_mask m.val c.val % 256) =
    PyOp.and (Gen.PyHelpers.smart_shift n.val ((k.val : Int) - 7) % 256) (Gen.PyHelpers.get_mask m.val c.val % 256) := by
  intro n k m c; rw [C19_smartShift n k]

theorem C19_bool_byte : Gen.GoHelpers.Bool2byte true = 1 ∧ Gen.GoHelpers.Bool2byte false = 0 ∧
    (∀ b : Fin 256, Gen.GoHelpers.Byte2bool b.val = decide (b.val ≠ 0)) := by decide +kernel

/-- Go struct field types: the smallest of 8/16/32/64 bits covering the width -/
theorem C19_storage_smallest (n : Nat) (h1 : 1 ≤ n) (h : n ≤ 64) :
    n ≤ storageBits n ∧ (storageBits n = 8 ∨ storageBits n = 16 ∨ storageBits n = 32 ∨ storageBits n = 64) ∧
    ∀ w, (w = 8 ∨ w = 16 ∨ w = 32 ∨ w = 64) → n ≤ w → storageBits n ≤ w := by
  unfold storageBits
  refine ⟨?_, ?_, ?_⟩
  · split <;> (try split) <;> (try split) <;> omega
  · split <;> (try split) <;> (try split) <;> omega
  · intro w hw hn
    split <;> (try split) <;> (try split) <;> omega

/-- the pair `<<= d; >>= d` with `d = storage − width` (typed left shift, arithmetic right shift on
the signed type) sign-extends an `n`-bit pattern exactly as the specification reads it -/
theorem C19_sign_pair (u n W : Nat) (hn1 : 1 ≤ n) (hnW : n ≤ W) (hu : u < 2^n) :
    Int.fdiv (sgn (u * 2^(W - n) % 2^W) W) ((2:Int)^(W - n)) = sgn u n := by
  have hpd : 0 < 2^(W - n) := Nat.pow_pos (by decide)
  have hW : 2^W = 2^n * 2^(W - n) := by rw [← Nat.pow_add]; congr 1; omega
  have hlt : u * 2^(W - n) < 2^W := by rw [hW]; exact Nat.mul_lt_mul_of_pos_right hu hpd
  rw [Nat.mod_eq_of_lt hlt]
  have hWpos : 0 < W := by omega
  -- bit W-1 of the shifted pattern is bit n-1 of the pattern
  have htop : (u * 2^(W - n)).testBit (W - 1) = u.testBit (n - 1) := by
    rw [← Nat.shiftLeft_eq, Nat.testBit_shiftLeft]
    have : W - 1 ≥ W - n := by omega
    have e : W - 1 - (W - n) = n - 1 := by omega
    simp [this, e]
  unfold sgn
  rw [htop]
  have hd0 : ((2:Int)^(W - n)) ≠ 0 := by
    have : (0:Int) < (2:Int)^(W - n) := Int.pow_pos (by decide)
    omega
  have hdpos : (0:Int) < (2:Int)^(W - n) := Int.pow_pos (by decide)
  by_cases hb : u.testBit (n - 1) = true
  · simp only [hb, if_true]
    have e : ((u * 2^(W - n) : Nat) : Int) - (2:Int)^W = ((u : Int) - (2:Int)^n) * (2:Int)^(W - n) := by
      have hWi : ((2:Int)^W) = (2:Int)^n * (2:Int)^(W - n) := by
        rw [← Int.pow_add]; congr 1; omega
      rw [hWi]; push_cast; rw [Int.sub_mul]
    rw [e, Int.fdiv_eq_ediv_of_nonneg _ (Int.le_of_lt hdpos), Int.mul_ediv_cancel _ hd0]
  · have hb' : u.testBit (n - 1) = false := by simpa using hb
    simp only [hb', Bool.false_eq_true, if_false]
    rw [Int.fdiv_eq_ediv_of_nonneg _ (Int.le_of_lt hdpos)]
    push_cast
    rw [Int.mul_ediv_cancel _ hd0]

/-- the sign pair is needed (and emitted) exactly for signed widths other than 8/16/32/64 -/
theorem C19_sign_needed (n : Nat) (h1 : 1 ≤ n) (h : n ≤ 64) :
    storageBits n - n = 0 ↔ (n = 8 ∨ n = 16 ∨ n = 32 ∨ n = 64) := by
  unfold storageBits; split <;> (try split) <;> (try split) <;> omega

end Bp.C19
