import BpModel.Proofs.Names
/-!
# C15 — generated API names follow the documented scheme

`Names.defName` models the composition of a generated definition name (prefix + enclosing message
names + own name, joined per language, case-converted per kind).  Proved for style-conforming
(PascalCase) names: a top-level message / enum / alias appears under exactly its schema name in C,
Go and Python; a nested message is named by its enclosing names followed by its own
(`ZooMonkey` in C and for Go messages, `Zoo_Monkey` in Python and for Go enums), at any nesting depth; a C name prefix ending in `_` contributes its
PascalCase form in front and changes nothing else.  Field names, API function names, file names,
macro names (through `snake_case`, not modelled) and the agreement of this model with the three
formatters are tied by the correspondence check on every generated program.
-/
namespace Bp.C15
open Bp Names

/-- top-level definitions appear under exactly their schema name, in every language -/
theorem C15_toplevel (l : Lang) (k : Kind) (hk : k ≠ .constant) (n : List Char) (hn : IsPascal n) :
    defName l k [] [] n = n := by
  cases l <;> cases k <;> simp_all [defName, convert, joinWith, pascalCase_fixed hn]

/-- Python (and Go enums): enclosing names, then the own name, joined by `_` — any depth -/
theorem C15_nested_py (k : Kind) (hk : k ≠ .constant) (scopes : List (List Char)) (n : List Char) :
    defName .py k [] scopes n = joinWith ['_'] (scopes ++ [n]) ∧
    defName .go .enum [] scopes n = joinWith ['_'] (scopes ++ [n]) := by
  cases k <;> simp_all [defName, convert, delim]

/-- C types and Go messages / aliases: enclosing names followed by the own name, concatenated — any depth -/
theorem C15_nested_c (k : Kind) (hk : k ≠ .constant) (scopes : List (List Char)) (n : List Char)
    (hs : ∀ s ∈ scopes, IsPascal s) (hn : IsPascal n) :
    defName .c k [] scopes n = scopes.flatten ++ n ∧
    defName .go .message [] scopes n = scopes.flatten ++ n ∧
    defName .go .alias [] scopes n = scopes.flatten ++ n := by
  have h := pascalCase_join scopes n hs hn
  cases k <;> simp_all [defName, convert, delim]

/-- the C name prefix (ending in `_`) is put in front in PascalCase and changes nothing else — any depth -/
theorem C15_prefix (k : Kind) (hk : k ≠ .constant) (p : List Char) (scopes : List (List Char)) (n : List Char) (hp : '_' ∉ p) :
    defName .c k (p ++ ['_']) scopes n = pascalPart p ++ defName .c k [] scopes n := by
  have key : ∀ x : List Char, pascalCase ((p ++ ['_']) ++ x) = pascalPart p ++ pascalCase x := by
    intro x
    unfold pascalCase
    rw [List.append_assoc, List.singleton_append, splitUs_append_us p x hp]
    simp
  cases k <;> simp_all [defName, convert]

/-- constants and macros: the upper-cased prefix in front of the upper-cased name -/
theorem C15_constant (l : Lang) (pre : List Char) (scopes : List (List Char)) (n : List Char) :
    defName l .constant pre scopes n = upperCase pre ++ upperCase (joinWith ['_'] (scopes ++ [n])) := by
  cases l <;> simp [defName, convert, delim, upperCase]

/-- an upper-case name is left as it is -/
theorem C15_constant_fixed (l : Lang) (n : List Char) (hn : ∀ c ∈ n, isLowerC c = false) :
    defName l .constant [] [] n = n := by
  have : upperCase n = n := by
    unfold upperCase
    induction n with
    | nil => rfl
    | cons c cs ih =>
      simp only [List.map_cons, toUpperC, hn c (by simp)]
      rw [ih (fun x hx => hn x (by simp [hx]))]
      simp
  cases l <;> simp [defName, convert, joinWith, this]

/-! ### non-vacuity -/
example : String.ofList (defName .c .message "lib_".toList ["Zoo".toList] "Monkey".toList) = "LibZooMonkey" := by decide
example : String.ofList (defName .c .enum "my_prefix_".toList ["Zoo".toList, "Monkey".toList] "Kind".toList) = "MyPrefixZooMonkeyKind" := by decide
example : String.ofList (defName .py .message [] ["Zoo".toList] "Monkey".toList) = "Zoo_Monkey" := by decide
example : String.ofList (defName .go .enum [] ["Zoo".toList] "Kind".toList) = "Zoo_Kind" := by decide
example : String.ofList (defName .c .constant "lib_".toList [] "MAX_AGE".toList) = "LIB_MAX_AGE" := by decide
example : IsPascal "HTTPServer".toList := ⟨'H', "TTPServer".toList, rfl, by decide, by decide, by decide⟩

end Bp.C15
