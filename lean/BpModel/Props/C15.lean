import BpModel.Proofs.Names
/-!
# C15 — generated API names follow the documented scheme

`Names.defName` models the composition of a generated definition name (prefix + enclosing message
names + own name, joined per language, case-converted per kind).  Proved for style-conforming
(PascalCase) names: a top-level message / enum / alias appears under exactly its schema name in C,
Go and Python; a nested message is named by its enclosing names followed by its own
(`ZooMonkey` in C and Go, `Zoo_Monkey` in Python); a C name prefix ending in `_` contributes its
PascalCase form in front and changes nothing else.  Field names, API function names, file names,
macro names (through `snake_case`, not modelled) and the agreement of this model with the three
formatters are tied by the correspondence check on every generated program.
-/
namespace Bp.C15
open Bp Names

/-- top-level definitions appear under exactly their schema name, in every language -/
theorem C15_toplevel (l : Lang) (k : Kind) (hk : k ≠ .constant) (n : List Char) (hn : IsPascal n) :
    defName l k [] [] n = n := by
  cases l <;> cases k <;> simp_all [defName, convert, joinWith, pascalCase_fixed hn]

/-- Python: enclosing names joined by `_`; Go/C messages: concatenated -/
theorem C15_nested_py (k : Kind) (hk : k ≠ .constant) (outer n : List Char) :
    defName .py k [] [outer] n = outer ++ '_' :: n := by
  cases k <;> simp_all [defName, convert, joinWith, delim]

theorem C15_nested_c (outer n : List Char) (hcat : IsPascal (outer ++ n)) :
    defName .c .message [] [outer] n = outer ++ n ∧ defName .go .message [] [outer] n = outer ++ n := by
  simp [defName, convert, joinWith, delim, pascalCase_fixed hcat]

/-- the C name prefix (ending in `_`) is put in front in PascalCase and changes nothing else -/
theorem C15_prefix (p n : List Char) (hp : '_' ∉ p) (hn : IsPascal n) :
    defName .c .message (p ++ ['_']) [] n = pascalPart p ++ defName .c .message [] [] n := by
  have h1 : defName .c .message [] [] n = n := by simp [defName, convert, joinWith, pascalCase_fixed hn]
  rw [h1]
  simp only [defName, convert, joinWith, List.nil_append, List.append_assoc, List.singleton_append]
  exact pascalCase_prefix p n hp hn

/-- constants and macros are upper-cased -/
theorem C15_constant (l : Lang) (n : List Char) : defName l .constant [] [] n = upperCase n := by
  cases l <;> simp [defName, convert, joinWith]

/-! ### non-vacuity -/
example : String.ofList (defName .c .message "lib_".toList ["Zoo".toList] "Monkey".toList) = "LibZooMonkey" := by decide
example : String.ofList (defName .py .message [] ["Zoo".toList] "Monkey".toList) = "Zoo_Monkey" := by decide
example : String.ofList (defName .go .enum [] ["Zoo".toList] "Kind".toList) = "Zoo_Kind" := by decide

end Bp.C15
