import BpModel.Proofs.CDecTree
import BpModel.Proofs.OpMode
/-!
# C06 — the wire is little-endian whatever the host byte order

`be = true` is the runtime built with `BP_BIG_ENDIAN` operating on storage laid out big-endian
(`cellOf true`, the byte-reversed cell).  Outside the model: a real big-endian CPU and its
compiler; the emulation (big-endian build fed byte-reversed storage) is the property's own
observation point and is what the check executes.
-/
namespace Bp.C06
open Bp

/-- the big-endian build on big-endian storage produces the same wire bytes as the little-endian
build on little-endian storage: both produce the specified bytes -/
theorem C06_rt_encode (t : Ty) (v : Val) (hwf : t.wf = true) (hv : shape t v = true) :
    CRt.encode true t v = CRt.encode false t v ∧ CRt.encode true t v = .ok (Spec.encode t v) := by
  rw [CRt.cencode_eq_spec true t v hwf hv, CRt.cencode_eq_spec false t v hwf hv]
  exact ⟨rfl, rfl⟩

/-- … and consumes the same wire bytes -/
theorem C06_rt_decode (t : Ty) (v : Val) (hwf : t.wf = true) (hv : inRange t v = true) :
    CRt.decode true t (Spec.encode t v) = .ok v ∧ CRt.decode true t (Spec.encode t v) = CRt.decode false t (Spec.encode t v) := by
  have h1 := CRt.c_dec_evo true (Evo.refl t hwf) v hwf hwf hv
  have h2 := CRt.c_dec_evo false (Evo.refl t hwf) v hwf hwf hv
  rw [proj_self t v (PyRt.shape_of_inRange t v hv)] at h1 h2
  exact ⟨h1, by rw [h1, h2]⟩

/-- the staging buffer of a big-endian cell is the little-endian view of the integer it holds -/
theorem C06_stage_in (size u : Nat) (hs : size ≤ 8) :
    bytesToNat (CRt.stageIn size (CRt.cellOf true size u)) = u % 2^(8*size) := CRt.stageIn_cellOf size u hs

theorem C06_stage_out (size D : Nat) (hs1 : 1 ≤ size) (hs : size ≤ 8) (hD : D < 2^(8*size)) :
    CRt.cellVal true (CRt.stageOut size (natToBytes 8 D) (zeros size)) = D := CRt.cellVal_stageOut size D hs1 hs hD

/-- word fast paths disabled on big-endian change nothing in the result -/
theorem C06_copier_build_indep (n D S di si : Nat) (hz : ∀ p, di ≤ p → D.testBit p = false) :
    (CRt.copyBits true n D S di si).D = (CRt.copyBits false n D S di si).D :=
  CRt.copyBits_build_indep n D S di si hz

/-- base-type level, both directions, any width 1..64 at any bit offset -/
theorem C06_leaf (n : Nat) (hn : n ≤ 64) (x : Int) :
    PyRt.Writes (CRt.encLeafAct true n x) (leafBits n x) ∧ PyRt.Writes (CRt.encLeafAct false n x) (leafBits n x) :=
  ⟨CRt.writes_cleaf true n hn x, CRt.writes_cleaf false n hn x⟩

/-- the big-endian branch of optimization-mode output (value-shift items never look at bytes)
produces and consumes the same wire bytes as the little-endian branch -/
theorem C06_opmode (t : Ty) (v : Val) (hne : Wire.noExt t = true) (hwf : t.wf = true) (hv : shape t v = true) :
    Wire.encodeWith (OpMode.encLeaf .cBE) t v = Wire.encodeWith (OpMode.encLeaf .cLE) t v := by
  rw [Wire.encodeWith_eq_spec (OpMode.encLeaf .cBE) (fun n hn x => OpMode.writes_opLeaf .cBE n hn x) t v hne hwf hv,
    Wire.encodeWith_eq_spec (OpMode.encLeaf .cLE) (fun n hn x => OpMode.writes_opLeaf .cLE n hn x) t v hne hwf hv]

/-- big-endian detection: `BP_BIG_ENDIAN` is defined exactly when the user predefines it or one of
the documented compiler macros says big-endian (decision table of lib/c/bitproto.c:16-22) -/
structure Macros where
  bpBigEndian : Bool          -- user predefined BP_BIG_ENDIAN
  byteOrderBig : Bool         -- defined(__BYTE_ORDER__) && __BYTE_ORDER__ == __ORDER_BIG_ENDIAN__
  armBigEndian : Bool         -- defined(__ARM_BIG_ENDIAN)
  tiBigEndian : Bool          -- defined(__big_endian__)
  bigEndianMacro : Bool       -- defined(__BIG_ENDIAN__)
  littleEndianZero : Bool     -- defined(__LITTLE_ENDIAN__) && __LITTLE_ENDIAN__ == 0
def detect (m : Macros) : Bool :=
  m.bpBigEndian || (!m.bpBigEndian && (m.byteOrderBig || m.armBigEndian || m.tiBigEndian || m.bigEndianMacro || m.littleEndianZero))
theorem C06_detect (m : Macros) :
    detect m = (m.bpBigEndian || m.byteOrderBig || m.armBigEndian || m.tiBigEndian || m.bigEndianMacro || m.littleEndianZero) := by
  cases m; simp [detect]; rename_i a b c d e f; cases a <;> simp

/-! ### non-vacuity -/
def exTy : Ty := (Ty.msg false [(2, .int 7), (1, .uint 3), (4, .array true 3 (.alias (.int 16))),
  (9, .array false 5 (.uint 32)), (7, .int 61)]).normalize
def exVal : Val := .msg [.int 5, .int (-3), .arr [.int 1, .int (-2), .int 4095],
  .int (-1152921504606846976), .arr [.int 1, .int 4294967295, .int 0, .int 77, .int 65536]]
example : exTy.wf = true ∧ inRange exTy exVal = true := by decide +kernel
example : PyRt.okIs (CRt.decode true exTy (Spec.encode exTy exVal)) exVal = true := by decide +kernel

end Bp.C06
