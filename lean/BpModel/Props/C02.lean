import BpModel.Proofs.RoundTrip
import BpModel.Proofs.BridgePy
/-!
# C02 — Python decode(encode(v)) = v, and re-encoding reproduces the bytes

The full statement is **false** of the unchanged code for enums whose first declared member is
not 0 (KF-py-enum-default): a freshly constructed message holds that member and `decode` ORs the
wire value onto it.  `KF_py_enum_default_witness` proves the negation on a concrete input in the
model; `C02_roundtrip_partial` is the full statement under `enumZero t` (every enum's first
member is 0).  The two earlier defects (enum chunks through the IntEnum constructor, array skip)
were repaired in /repo by `fix:` commits and the model follows the repaired code.
-/
namespace Bp.C02
open Bp

/-- For every well-formed type whose enums start at 0 and every in-range value: decoding the
encoder's bytes into a fresh message raises nothing and yields exactly `v`; re-encoding what was
decoded reproduces the bytes. -/
theorem C02_roundtrip_partial (t : Ty) (v : Val) (hwf : t.wf = true) (hz : enumZero t = true)
    (hv : inRange t v = true) :
    ∃ bytes v', PyRt.encode t v = .ok bytes ∧
      PyRt.decode t bytes (PyRt.fresh t) = .ok v' ∧ v' = v ∧ PyRt.encode t v' = .ok bytes := by
  have hs := PyRt.shape_of_inRange t v hv
  refine ⟨Spec.encode t v, v, PyRt.encode_eq_spec t v hs, ?_, rfl, PyRt.encode_eq_spec t v hs⟩
  have := py_dec_evo (Evo.refl t hwf) v hwf hz hwf hv
  rwa [proj_self t v hs] at this

/-- the wire format itself round-trips for every well-formed type (no condition on enums):
`Spec.decode (Spec.encode v) = v` -/
theorem C02_spec_roundtrip (t : Ty) (v : Val) (hwf : t.wf = true) (hv : inRange t v = true) :
    Spec.decode t (Spec.encode t v) = some v := by
  have := spec_dec_evo (Evo.refl t hwf) v hwf hv
  unfold Spec.decode
  rw [this, proj_self t v (PyRt.shape_of_inRange t v hv)]
  rfl

/-- signed leaves come back sign-extended: the decoder's value for an `int n` field is the signed
reading of the `n` wire bits -/
theorem C02_signed_leaf (n : Nat) (hn1 : 1 ≤ n) (hn64 : n ≤ 64) (s : List Nat) (hs : AllBytes s) (i : Nat)
    (hroom : i + n ≤ 8 * s.length) :
    PyRt.decLeaf n (.int n) 0 s i = .ok (sgn (readNat (bytesToNat s) i n) n, i + n) :=
  PyRt.decLeaf_int n hn1 hn64 s hs i hroom

theorem C02_signed_value (x : Int) (n : Nat) (hn : 1 ≤ n) (lo : -(2:Int)^(n-1) ≤ x) (hi : x < (2:Int)^(n-1)) :
    sgn (tc x n) n = x := sgn_tc x n hn lo hi

/-- the translator tie for the sign casts: `bp.int8 … bp.int64` as the source reads now -/
theorem C02_casts_tied : (∀ v, Bp.Gen.PyHelpers.int8 v = PyRt.intW 8 v) ∧ (∀ v, Bp.Gen.PyHelpers.int16 v = PyRt.intW 16 v) ∧
    (∀ v, Bp.Gen.PyHelpers.int32 v = PyRt.intW 32 v) ∧ (∀ v, Bp.Gen.PyHelpers.int64 v = PyRt.intW 64 v) :=
  ⟨Bridge.int8_eq, Bridge.int16_eq, Bridge.int32_eq, Bridge.int64_eq⟩

/-! ### KF-py-enum-default: negation by witness
`enum E : uint1 { A = 1; B = 0 }`, `message M { E e = 1 }`, value `e = B`: decodes as `A`. -/
def kfTy : Ty := .msg false [(1, .enum 1 [1, 0])]
def kfVal : Val := .msg [.int 0]
theorem KF_py_enum_default_witness :
    kfTy.wf = true ∧ inRange kfTy kfVal = true ∧ enumZero kfTy = false ∧
    PyRt.okIs (PyRt.decode kfTy (Spec.encode kfTy kfVal) (PyRt.fresh kfTy)) (.msg [.int 1]) = true := by
  decide +kernel

/-! ### non-vacuity -/
def exTy : Ty := (Ty.msg false [(2, .int 7), (1, .uint 3),
  (4, .array true 3 (.alias (.int 13))), (3, .msg true [(1, .enum 12 [0, 3000]), (2, .bool)]),
  (9, .array true 10 .bool), (7, .int 64)]).normalize
def exVal : Val := .msg [.int 5, .int (-3), .msg [.int 3000, .int 1], .arr [.int 1, .int (-2), .int 4095],
  .int (-9223372036854775808), .arr (List.replicate 10 (.int 1))]
example : exTy.wf = true ∧ enumZero exTy = true ∧ inRange exTy exVal = true := by decide +kernel
example : PyRt.okIs (PyRt.decode exTy (Spec.encode exTy exVal) (PyRt.fresh exTy)) exVal = true := by
  decide +kernel

end Bp.C02
