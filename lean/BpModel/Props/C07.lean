import BpModel.Proofs.CDecTree
import BpModel.Proofs.BridgeFmt
import BpModel.Proofs.OpMode
/-!
# C07 — encoding touches exactly its bytes, and each field exactly its bits

Bounds are statements about the *modelled accesses*: the Python model raises `IndexError` for any
index beyond the buffer, the C model returns `.oob` for any byte of the wire buffer, a cell or the
staging buffer outside the object; the theorems say these never happen with a buffer of exactly
`⌈N/8⌉` bytes and cells of exactly their storage size.  Memory outside the modelled objects is
observed by the check's guard zones / sanitizer builds (validation, not proof).
-/
namespace Bp.C07
open Bp

/-- byte-length constant = `⌈N/8⌉`; the compiler's `Type.nbytes()` as the source reads now computes it -/
theorem C07_size_const (n : Nat) : nbytes n = (n + 7) / 8 ∧ Gen.FmtHelpers.type_nbytes n = (nbytes n : Nat) :=
  ⟨rfl, Bridge.type_nbytes_eq n⟩

/-- a field's chunk is a function of the field's low `n` bits only -/
theorem C07_leaf_low_bits (n : Nat) (x y : Int) (h : tc x n = tc y n) : leafBits n x = leafBits n y := by
  unfold leafBits; rw [h]

mutual
/-- every leaf reduced modulo `2^n` (its width) -/
def reduce : Ty → Val → Val
  | .bool, .int x => .int (tc x 1 : Nat)
  | .byte, .int x => .int (tc x 8 : Nat)
  | .uint n, .int x => .int (tc x n : Nat)
  | .int n, .int x => .int (tc x n : Nat)
  | .enum n _, .int x => .int (tc x n : Nat)
  | .alias t, v => reduce t v
  | .array _ _ e, .arr vs => .arr (vs.map (reduce e))
  | .msg _ fs, .msg vs => .msg (reduceFields fs vs)
  | _, v => v
def reduceFields : List (Nat × Ty) → List Val → List Val
  | (_, t) :: fs, v :: vs => reduce t v :: reduceFields fs vs
  | _, vs => vs
end

theorem tc_tc (x : Int) (n : Nat) : tc ((tc x n : Nat) : Int) n = tc x n := by
  unfold tc
  have hpos : (0:Int) < (2:Int)^n := Int.pow_pos (by decide)
  have h0 := Int.emod_nonneg x (Int.ne_of_gt hpos)
  rw [Int.toNat_of_nonneg h0, Int.emod_emod_of_dvd _ (Int.dvd_refl _)]

mutual
theorem bits_reduce : ∀ (t : Ty) (v : Val), Spec.bits t (reduce t v) = Spec.bits t v
  | .bool, .int x => by simp [reduce, Spec.bits, leafBits, tc_tc]
  | .byte, .int x => by simp [reduce, Spec.bits, leafBits, tc_tc]
  | .uint n, .int x => by simp [reduce, Spec.bits, leafBits, tc_tc]
  | .int n, .int x => by simp [reduce, Spec.bits, leafBits, tc_tc]
  | .enum n _, .int x => by simp [reduce, Spec.bits, leafBits, tc_tc]
  | .alias t, v => by simpa [reduce, Spec.bits] using bits_reduce t v
  | .array ext cap e, .arr vs => by
    simp only [reduce, Spec.bits]
    congr 1
    induction vs with
    | nil => rfl
    | cons w ws ih => simp [List.flatMap_cons, bits_reduce e w, ih]
  | .msg ext fs, .msg vs => by
    simp only [reduce, Spec.bits, bitsFields_reduce fs vs]
  | .bool, .arr _ | .bool, .msg _ | .byte, .arr _ | .byte, .msg _ => by simp [reduce]
  | .uint _, .arr _ | .uint _, .msg _ | .int _, .arr _ | .int _, .msg _ => by simp [reduce]
  | .enum _ _, .arr _ | .enum _ _, .msg _ => by simp [reduce]
  | .array _ _ _, .int _ | .array _ _ _, .msg _ | .msg _ _, .int _ | .msg _ _, .arr _ => by simp [reduce]
theorem bitsFields_reduce : ∀ (fs : List (Nat × Ty)) (vs : List Val),
    Spec.bitsFields fs (reduceFields fs vs) = Spec.bitsFields fs vs
  | [], vs => by simp [reduceFields]
  | (_, t) :: fs, [] => by simp [reduceFields]
  | (_, t) :: fs, v :: vs => by
    simp [reduceFields, Spec.bitsFields, bits_reduce t v, bitsFields_reduce fs vs]
end

/-- the specified bytes do not change when every field is reduced modulo `2^n`: an out-of-range
value (too large, or negative for an unsigned field) changes no bit of another field or of padding -/
theorem C07_spec_mask (t : Ty) (v : Val) : Spec.encode t (reduce t v) = Spec.encode t v := by
  unfold Spec.encode; rw [bits_reduce]

/-- Python: arbitrary (out-of-range) integers in integer fields — the encoder still returns
exactly the specified bytes of the reduced message, without `IndexError`/`ValueError` -/
theorem C07_py_mask (t : Ty) (v : Val) (hv : shape t v = true) :
    PyRt.encode t v = .ok (Spec.encode t (reduce t v)) := by
  rw [C07_spec_mask]; exact PyRt.encode_eq_spec t v hv

/-- C, both builds: arbitrary storage contents of integer cells -/
theorem C07_c_mask (be : Bool) (t : Ty) (v : Val) (hwf : t.wf = true) (hv : shape t v = true) :
    CRt.encode be t v = .ok (Spec.encode t (reduce t v)) := by
  rw [C07_spec_mask]; exact CRt.cencode_eq_spec be t v hwf hv

/-- optimization mode, every dialect: same statement -/
theorem C07_op_mask (d : OpMode.Dialect) (t : Ty) (v : Val) (hne : Wire.noExt t = true) (hwf : t.wf = true)
    (hv : shape t v = true) :
    Wire.encodeWith (OpMode.encLeaf d) t v = .ok (Spec.encode t (reduce t v)) := by
  rw [C07_spec_mask]
  exact Wire.encodeWith_eq_spec (OpMode.encLeaf d) (fun n hn x => OpMode.writes_opLeaf d n hn x) t v hne hwf hv

/-- C never leaves the `⌈N/8⌉`-byte buffer, a cell or the staging buffer while encoding (no `.oob`),
on either build -/
theorem C07_c_encode_in_bounds (be : Bool) (t : Ty) (v : Val) (hwf : t.wf = true) (hv : shape t v = true) :
    ∃ bytes, CRt.encode be t v = .ok bytes ∧ bytes.length = nbytes t.nbits :=
  ⟨Spec.encode t v, CRt.cencode_eq_spec be t v hwf hv, by simp [Spec.encode, natToBytes_length]⟩

/-- … nor while decoding a buffer produced by the same schema -/
theorem C07_c_decode_in_bounds (be : Bool) (t : Ty) (v : Val) (hwf : t.wf = true) (hv : inRange t v = true) :
    CRt.decode be t (Spec.encode t v) = .ok v := by
  have := CRt.c_dec_evo be (Evo.refl t hwf) v hwf hwf hv
  rwa [proj_self t v (PyRt.shape_of_inRange t v hv)] at this

/-- Python: every index used is inside the `⌈N/8⌉`-byte buffer (no `IndexError`) -/
theorem C07_py_in_bounds (t : Ty) (v : Val) (hv : shape t v = true) :
    ∃ bytes, PyRt.encode t v = .ok bytes ∧ bytes.length = nbytes t.nbits :=
  ⟨Spec.encode t v, PyRt.encode_eq_spec t v hv, by simp [Spec.encode, natToBytes_length]⟩

/-- the word-sized stores/loads of the bit copier stay inside the bytes that hold copied bits -/
theorem C07_copier_bounds (be : Bool) (n D S di si : Nat) (hz : ∀ p, di ≤ p → D.testBit p = false) :
    (CRt.copyBits be n D S di si).whi ≤ (di + n + 7) / 8 ∧ (CRt.copyBits be n D S di si).rhi ≤ (si + n + 7) / 8 :=
  ⟨(CRt.copyBits_spec be n D S di si hz).1, (CRt.copyBits_spec be n D S di si hz).2.1⟩

/-! ### non-vacuity: an overdriven message -/
def exTy : Ty := .msg false [(1, .uint 3), (2, .int 5), (3, .bool), (4, .array false 2 (.uint 8))]
def exVal : Val := .msg [.int 1000, .int (-77), .int 1, .arr [.int (-1), .int 511]]
example : exTy.wf = true ∧ shape exTy exVal = true ∧ inRange exTy exVal = false := by decide +kernel
example : Val.eqb (reduce exTy exVal) (.msg [.int 0, .int 19, .int 1, .arr [.int 255, .int 255]]) = true := by
  decide +kernel

end Bp.C07
