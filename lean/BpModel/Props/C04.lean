import BpModel.Proofs.OpMode
import BpModel.Proofs.BridgeFmt
/-!
# C04 — optimization mode (-O) changes how, never what, is encoded (C and Go)

`OpMode.planLeaf` is the compile-time copy plan (`formatter.py`), `OpMode.encLeaf d` / `decLeaf`
the meaning of the emitted statements in dialect `d` (C little-endian byte-pointer items, C
big-endian value-shift items, Go items); `Wire.encodeWith` / `decodeWith` run them over a
traditional type tree.  Hypotheses: zeroed output buffer and zeroed target (the property's
"zeroed target"; the C encoder's `=` on the first write to each byte makes the zeroed buffer
unnecessary in C, which is not needed for — and not claimed by — these theorems).
Outside the model: Go statements are never executed here (no toolchain); their meaning is the Go
item semantics written from the language specification.  The tie for the *generated text* is that
every generated program of a run is parsed back into items and compared with this plan.
-/
namespace Bp.C04
open Bp OpMode

/-- the plan covers every bit of a leaf exactly once, in order, each item inside one stream byte
and one value byte -/
theorem C04_plan_cover (n : Nat) (i : Nat) :
    (planChunks n n i 0).sum = n ∧ ∀ c ∈ planChunks n n i 0, 0 < c ∧ c ≤ 8 := by
  have := planChunks_cover n n i 0 (by omega) (by omega)
  simpa using this

/-- every dialect encodes every value of a traditional schema to exactly the specified bytes … -/
theorem C04_encode (d : Dialect) (t : Ty) (v : Val) (hne : Wire.noExt t = true) (hwf : t.wf = true)
    (hv : shape t v = true) :
    Wire.encodeWith (encLeaf d) t v = .ok (Spec.encode t v) :=
  Wire.encodeWith_eq_spec (encLeaf d) (fun n hn x => writes_opLeaf d n hn x) t v hne hwf hv

/-- … which are the bytes standard mode produces (C runtime on either build, Python runtime) -/
theorem C04_same_as_standard (d : Dialect) (be : Bool) (t : Ty) (v : Val) (hne : Wire.noExt t = true)
    (hwf : t.wf = true) (hv : shape t v = true) :
    Wire.encodeWith (encLeaf d) t v = CRt.encode be t v ∧ Wire.encodeWith (encLeaf d) t v = PyRt.encode t v := by
  rw [C04_encode d t v hne hwf hv, CRt.cencode_eq_spec be t v hwf hv, PyRt.encode_eq_spec t v hv]
  exact ⟨rfl, rfl⟩

/-- and decodes every such buffer into a zeroed target to exactly the same field values (signed
ones sign-extended by the dialect's sign statement) -/
theorem C04_decode (t : Ty) (v : Val) (hne : Wire.noExt t = true) (hwf : t.wf = true) (hv : inRange t v = true) :
    Wire.decodeWith decLeaf t (Spec.encode t v) = .ok v :=
  Wire.decodeWith_roundtrip decLeaf decLeaf_ok t v hne hwf hv

/-- leaf level: each dialect writes exactly the chunk, reads exactly the wire value -/
theorem C04_leaf (d : Dialect) (n : Nat) (hn : n ≤ 64) (x : Int) : PyRt.Writes (encLeaf d n x) (leafBits n x) :=
  writes_opLeaf d n hn x
theorem C04_leaf_dec : Wire.ReaderOk decLeaf := decLeaf_ok

/-- which code path the emitted text selects, per `--endian` setting and `BP_BIG_ENDIAN` -/
inductive Endian | little | big | both
def selected (e : Endian) (bpBigEndianDefined : Bool) : Dialect :=
  match e with
  | .little => .cLE
  | .big => .cBE
  | .both => if bpBigEndianDefined then .cBE else .cLE     -- `#ifndef BP_BIG_ENDIAN … #else … #endif`
theorem C04_endian_select (e : Endian) (m : Bool) (t : Ty) (v : Val) (hne : Wire.noExt t = true)
    (hwf : t.wf = true) (hv : shape t v = true) :
    Wire.encodeWith (encLeaf (selected e m)) t v = .ok (Spec.encode t v) :=
  C04_encode _ t v hne hwf hv

/-- the translator tie: the compile-time mask as `formatter.py` reads now -/
theorem C04_mask_tied : ∀ k : Fin 8, ∀ c : Fin 9,
    Gen.FmtHelpers.op_mode_get_mask k.val c.val = (getMask k.val c.val : Nat) := Bridge.op_mode_get_mask_eq

/-! ### non-vacuity -/
def exTy : Ty := (Ty.msg false [(2, .int 7), (1, .uint 3), (4, .array false 3 (.alias (.int 13))),
  (3, .msg false [(1, .enum 12 [0, 3000]), (2, .bool)]), (7, .int 61)]).normalize
def exVal : Val := .msg [.int 5, .int (-3), .msg [.int 3000, .int 1], .arr [.int 1, .int (-2), .int 4095],
  .int (-1152921504606846976)]
example : Wire.noExt exTy = true ∧ exTy.wf = true ∧ inRange exTy exVal = true := by decide +kernel
example : PyRt.okIs (Wire.decodeWith decLeaf exTy (Spec.encode exTy exVal)) exVal = true := by decide +kernel

end Bp.C04
