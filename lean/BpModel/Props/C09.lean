import BpModel.Proofs.Lexer
import BpModel.Proofs.ExprFuel
import BpModel.Proofs.FrontFuel
import BpModel.Proofs.BridgeTables
import BpModel.Proofs.Lex
import BpModel.Proofs.Parse
/-!
# C09 — compilation is total: any input yields success or a parser error

A Lean function is total by construction, so the content is in the places where the MODEL could
only be written with an explicit "this cannot happen" answer: a checked index (`indexError`, the
Python `IndexError` of `s[i]` in the lexer's escape loop) and fuel (`outOfFuel` / the fuel bounds of
the expression parser, the tokenizer and the import recursion — a hang).  Proved: none of them is
ever the answer.

* string literals: whatever the token regular expression matches, the escape loop ends with the
  value or with `InvalidEscapingChar`;
* constant expressions: every successful parsing step consumes a token, so fuel `2·|tokens| + 2`
  (tokenizer: `|text|`) is never exhausted — `none` always means a syntax error; evaluation ends in
  a value or in one of the two parser errors (division by zero, unbound name);
* imports: the answer of the import recursion does not depend on the fuel beyond `|files| + 1`:
  every nested import hits the cyclic-import check or takes a file out of the set still available.

* text level: the lexer model (`Lex.lex`: PLY's rule order, `\b` boundaries, lazy errors) terminates on
  every text and numbers lines correctly; the grammar model (`Parse.parseText`, a predictive parser
  written from `grammars.py`) never hits a fuel bound either (`C09_grammar_total`): every parsing function
  hands back a token list no longer than the one it got.

Not modelled (tied by the correspondence streams only, hence `partial`): PLY's LALR automaton itself
(the text-level models are tied to it by executing both on the same texts), and the renderers as a
whole (the known defects there — an
empty enum, constants beyond 4300 digits — are listed in known_findings.json).
-/
namespace Bp.C09
open Bp

/-- the escape loop never leaves by an internal error and never hangs -/
theorem C09_string_literal_total (cs : List Char) (res : Except Lexer.EscErr (List Char)) (rest : List Char)
    (h : Lexer.lexString cs = some (res, rest)) :
    (∃ v, res = .ok v) ∨ res = .error .invalidEscapingChar := by
  have := Lexer.lexString_total cs res rest h
  cases res with
  | ok v => exact .inl ⟨v, rfl⟩
  | error e => cases e <;> simp_all

/-- the expression parser's answer does not depend on fuel beyond `2·|ts| + 2` (it never runs out) -/
theorem C09_expr_parser_fuel (ts : List Expr.Tok) (k : Nat) :
    Expr.parseExpr (2 * ts.length + 2 + k) 1 ts = Expr.parseExpr (2 * ts.length + 2) 1 ts :=
  Expr.parseExpr_fuel 1 ts k

/-- the tokenizer's answer does not depend on fuel beyond `|text|` -/
theorem C09_tokenizer_fuel (cs : List Char) (k : Nat) : Expr.tokenize (cs.length + k) cs = Expr.tokenize cs.length cs :=
  Expr.tokenize_fuel cs k

/-- every expression text ends in a value or in a parser error of one of four kinds -/
theorem C09_eval_classified (env : String → Option Int) (text : String) :
    (∃ v, Expr.evalText env text = .ok v) ∨ Expr.evalText env text = .error "lex" ∨ Expr.evalText env text = .error "parse" ∨
    Expr.evalText env text = .error "div0" ∨ ∃ s : String, Expr.evalText env text = .error s!"unbound {s}" := by
  unfold Expr.evalText
  split
  · simp
  · split
    · simp
    · split
      · simp
      · simp
      · rename_i s _
        exact .inr (.inr (.inr (.inr ⟨s, rfl⟩)))

/-- the import recursion's answer does not depend on fuel beyond `|files| + 1` (it never runs out) -/
theorem C09_import_fuel (files : List Front.File) (trad : Bool) (main : String) (c : Front.Ctx) (line k : Nat) :
    Front.checkFile files trad (files.length + 1 + k) [] main c line = Front.checkFile files trad (files.length + 1) [] main c line :=
  Front.checkFile_fuel files trad main c line k

/-- **the whole lexer terminates**: for every text, with one unit of fuel per character, the token
list ends in the end of the text or in a lexical error — never in "out of fuel" -/
theorem C09_lexer_total (text : List Char) : (Lex.lex text).2 ≠ some .outOfFuel := Lex.lex_total text

/-- every token carries the line it is on: 1 + the number of NEWLINE tokens before it -/
theorem C09_token_lines (text : List Char) : Lex.LinesOk 1 (Lex.lex text).1 :=
  Lex.lexAll_lines text.length false 1 text

/-- **the grammar model terminates**: for every text, no parsing function of `Parse.lean` ever hits its
fuel bound (`hung` is the ghost flag a fuel stop would set; such a stop is the only way the rule
`hang` can appear in the item list) -/
theorem C09_grammar_total (raw : List Char) : (Parse.parseBody raw).hung = false := Parse.parseBody_total raw

/-- the translator tie: the model's escape table is `Lexer.escaping_chars` as lexer.py reads now -/
theorem C09_escapes_tied (c : Char) :
    Lexer.escTable c = (Gen.Tables.lexer_escapes.find? (·.1 == c)).map (·.2) := by
  rw [Bridge.lexer_escapes_eq]
  unfold Lexer.escTable
  have b : ∀ x : Char, (x == c) = decide (c = x) := by
    intro x
    by_cases h : c = x
    · simp [h]
    · have : ¬ x = c := fun e => h e.symm
      simp [h, this]
  simp only [List.find?, b]
  by_cases h1 : c = 't' <;> by_cases h2 : c = 'r' <;> by_cases h3 : c = 'n' <;> by_cases h4 : c = '\\' <;>
    by_cases h5 : c = '\'' <;> by_cases h6 : c = '"' <;> simp_all

/-! ### non-vacuity -/
example : (Lexer.lexString "a\\n\\\"b\" rest".toList).map (fun p => (p.1.toOption, p.2)) = some (some "a\n\"b".toList, " rest".toList) := by decide
example : (Lexer.lexString "a\\qb\"".toList).map (fun p => match p.1 with | .error e => some e | .ok _ => none) = some (some .invalidEscapingChar) := by decide
example : Lexer.lexString "never closed".toList = none := by decide
example : Lexer.lexString "ends in a backslash\\\"".toList = none := by decide
example : Expr.parse [.num 1, .op .add, .op .mul] = none := by decide

end Bp.C09
