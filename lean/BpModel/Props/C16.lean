import BpModel.Proofs.JsonText
import BpModel.Model.Json
import BpModel.Props.C01
/-!
# C16 — JSON output is valid JSON that states the message's values

`Spec.json` is the JSON *value* both producers must denote.  Proved here: its object keys are the
message's fields in field-number order (for normalised types), and it *states the values*: the
message value can be read back from it exactly (`ofJson (json v) = v`), so no two different
in-range messages share a JSON value.  That Python's `to_dict` / `to_json` and the generated C
`Json<Msg>` text denote this value is established by the correspondence check (`json.loads` of both
real outputs, key order included); `json.dumps`, `dataclasses.asdict` and `vsprintf` are outside the
model.  The Python `to_json` defect for byte arrays (TypeError) was repaired by a `fix:` commit.
-/
namespace Bp.C16
open Bp

/-- the keys of a message's JSON object are its fields, in list order -/
theorem C16_keys (fs : List (Nat × Ty)) : ∀ (vs : List Val), shapeFields fs vs = true →
    (Spec.jsonFields fs vs).map (·.1) = fs.map (·.1) := by
  induction fs with
  | nil => intro vs h; cases vs <;> simp [Spec.jsonFields]
  | cons f fs ih =>
    intro vs h
    obtain ⟨k, t⟩ := f
    cases vs with
    | nil => simp [shapeFields] at h
    | cons v vs =>
      simp only [shapeFields, Bool.and_eq_true] at h
      simp [Spec.jsonFields, ih vs h.2]

/-- … which for a normalised message is ascending field-number order -/
theorem C16_key_order (fs : List (Nat × Ty)) (vs : List Val) (h : shapeFields (sortBy fs) vs = true) :
    ((Spec.jsonFields (sortBy fs) vs).map (·.1)).Pairwise (· ≤ ·) := by
  rw [C16_keys _ vs h]
  have := C01.C01_sort_ascending fs
  unfold C01.Ascending at this
  exact List.pairwise_map.mpr this

theorem mapM_ofJson (e : Ty) (ih : ∀ v, inRange e v = true → Spec.ofJson e (Spec.json e v) = some v) :
    ∀ (vs : List Val), (∀ v ∈ vs, inRange e v = true) → (vs.map (Spec.json e)).mapM (Spec.ofJson e) = some vs
  | [], _ => by simp
  | v :: vs, h => by
    have h1 := ih v (h v (by simp))
    have h2 := mapM_ofJson e ih vs (fun w hw => h w (by simp [hw]))
    simp [List.mapM_cons, h1, h2]

mutual
/-- **the JSON value states the message's values**: every in-range value is recovered exactly -/
theorem C16_faithful : ∀ (t : Ty) (v : Val), inRange t v = true → Spec.ofJson t (Spec.json t v) = some v
  | .bool, .int x, h => by
    simp only [inRange, Bool.or_eq_true, decide_eq_true_eq] at h
    rcases h with h | h <;> subst h <;> simp [Spec.json, Spec.ofJson]
  | .byte, .int x, _ => by simp [Spec.json, Spec.ofJson]
  | .uint n, .int x, _ => by simp [Spec.json, Spec.ofJson]
  | .int n, .int x, _ => by simp [Spec.json, Spec.ofJson]
  | .enum n ms, .int x, _ => by simp [Spec.json, Spec.ofJson]
  | .alias t, v, h => by
    have := C16_faithful t v (by simpa [inRange] using h)
    simpa [Spec.json, Spec.ofJson] using this
  | .array ext cap e, .arr vs, h => by
    simp only [inRange, Bool.and_eq_true, decide_eq_true_eq, List.all_eq_true] at h
    have := mapM_ofJson e (fun v hv => C16_faithful e v hv) vs h.2
    simp [Spec.json, Spec.ofJson, this]
  | .msg ext fs, .msg vs, h => by
    have := C16_faithful_fields fs vs (by simpa [inRange] using h)
    simp [Spec.json, Spec.ofJson, this]
  | .bool, .arr _, h | .bool, .msg _, h => by simp [inRange] at h
  | .byte, .arr _, h | .byte, .msg _, h => by simp [inRange] at h
  | .uint _, .arr _, h | .uint _, .msg _, h => by simp [inRange] at h
  | .int _, .arr _, h | .int _, .msg _, h => by simp [inRange] at h
  | .enum _ _, .arr _, h | .enum _ _, .msg _, h => by simp [inRange] at h
  | .array _ _ _, .int _, h | .array _ _ _, .msg _, h => by simp [inRange] at h
  | .msg _ _, .int _, h | .msg _ _, .arr _, h => by simp [inRange] at h
theorem C16_faithful_fields : ∀ (fs : List (Nat × Ty)) (vs : List Val), inRangeFields fs vs = true →
    Spec.ofJsonFields fs (Spec.jsonFields fs vs) = some vs
  | [], [], _ => by simp [Spec.jsonFields, Spec.ofJsonFields]
  | (k, t) :: fs, v :: vs, h => by
    simp only [inRangeFields, Bool.and_eq_true] at h
    simp [Spec.jsonFields, Spec.ofJsonFields, C16_faithful t v h.1, C16_faithful_fields fs vs h.2]
  | [], _ :: _, h => by simp [inRangeFields] at h
  | _ :: _, [], h => by simp [inRangeFields] at h
end

/-- negative signed values appear as negative numbers, booleans as true/false, enums as numbers -/
theorem C16_leaves (n : Nat) (ms : List Nat) (x : Int) :
    Spec.json (.int n) (.int x) = .num x ∧ Spec.json (.enum n ms) (.int x) = .num x ∧
    Spec.json .bool (.int 1) = .bool true ∧ Spec.json .bool (.int 0) = .bool false := by
  simp [Spec.json]

/-! ### the JSON TEXT (what `Json<Msg>()` and `to_json()` write) can be read back
`JsonText.renderWith` is tied to the real text by exact string comparison on every run
(`tools/ties.py:tie_json_text`); keys are field names, which never contain a quote. -/

/-- the compact text of the C runtime is valid JSON for this reader and states exactly the value -/
theorem C16_text_roundtrip_c (j : JsonText.JT) (hk : JsonText.keysOk j = true) :
    JsonText.parse (JsonText.render j) = some j :=
  JsonText.parse_render JsonText.compact JsonText.compact_ok j hk

/-- likewise with `json.dumps`' default separators (Python `to_json()`) -/
theorem C16_text_roundtrip_py (j : JsonText.JT) (hk : JsonText.keysOk j = true) :
    JsonText.parse (JsonText.renderWith JsonText.pyDefault j) = some j :=
  JsonText.parse_render JsonText.pyDefault JsonText.pyDefault_ok j hk

example : String.ofList (JsonText.render (.obj [("a".toList, .num (-5)), ("b".toList, .arr [.bool true, .obj []]), ("c".toList, .arr [])])) =
    "{\"a\":-5,\"b\":[true,{}],\"c\":[]}" := by decide +kernel

end Bp.C16
