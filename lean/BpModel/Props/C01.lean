import BpModel.Proofs.PyEncTree
import BpModel.Proofs.BridgePy
/-!
# C01 — the Python encoder emits exactly the specified bit layout

Property theorems only (helper lemmas live in `Proofs/`).  `PyRt` is the model of `bp.py` plus the
generated accessor code, tied to /repo by the bridge lemmas of `Proofs/BridgePy.lean` (translator)
and by the `py.encode` correspondence; `Spec` is the wire format as the property words it.
-/
namespace Bp.C01
open Bp

/-- The generated `encode()` raises nothing and returns exactly the specified bytes, for every
(normalised) type and every value of its shape.  In-range values are a special case
(`C01_py_encode_in_range`); no well-formedness hypothesis is needed. -/
theorem C01_py_encode_is_spec (t : Ty) (v : Val) (hv : shape t v = true) :
    PyRt.encode t v = .ok (Spec.encode t v) :=
  PyRt.encode_eq_spec t v hv

theorem C01_py_encode_in_range (t : Ty) (v : Val) (hv : inRange t v = true) :
    PyRt.encode t v = .ok (Spec.encode t v) :=
  PyRt.encode_eq_spec t v (PyRt.shape_of_inRange t v hv)

/-- exactly `⌈N/8⌉` bytes -/
theorem C01_length (t : Ty) (v : Val) : (Spec.encode t v).length = (t.nbits + 7) / 8 := by
  simp [Spec.encode, natToBytes_length, nbytes]

/-- the bit stream has exactly `N` bits -/
theorem C01_nbits_of_stream (t : Ty) (v : Val) (hv : shape t v = true) :
    (Spec.bits t v).length = t.nbits := PyRt.bits_length t v hv

/-- stream bit `k` is stored in byte `k / 8` at bit position `k % 8` -/
theorem C01_bit (t : Ty) (v : Val) (k : Nat) (hk : k < t.nbits) :
    streamBit (Spec.encode t v) k = bitAt (Spec.bits t v) k := by
  unfold Spec.encode
  rw [streamBit_eq _ (natToBytes_allBytes _ _), bytesToNat_natToBytes,
    Nat.testBit_mod_two_pow, bitsToNat_testBit]
  have : k < 8 * nbytes t.nbits := by unfold nbytes; omega
  simp [this]

/-- all padding bits after bit `N - 1` are zero -/
theorem C01_padding (t : Ty) (v : Val) (hv : shape t v = true) (k : Nat) (hk : t.nbits ≤ k) :
    streamBit (Spec.encode t v) k = false := by
  unfold Spec.encode
  rw [streamBit_eq _ (natToBytes_allBytes _ _), bytesToNat_natToBytes,
    Nat.testBit_mod_two_pow, bitsToNat_testBit,
    bitAt_of_le _ _ (by rw [PyRt.bits_length t v hv]; exact hk)]
  simp

/-- a scalar occupies exactly its declared width, least significant bit first, as the two's
complement truncated to the width: bit `k` of the chunk is bit `k` of the value -/
theorem C01_scalar_bits (n : Nat) (x : Int) (k : Nat) :
    bitAt (leafBits n x) k = (decide (k < n) && PyInt.tb x k) := PyRt.bitAt_leafBits n x k

/-- for an in-range unsigned value that is simply its binary representation -/
theorem C01_scalar_unsigned (n : Nat) (x : Nat) (k : Nat) (hk : k < n) :
    bitAt (leafBits n (x : Int)) k = x.testBit k := by
  rw [C01_scalar_bits]; simp [hk]

/-! ### N = sum of the leaf widths + 16 per extensible node -/
mutual
def leafSum : Ty → Nat
  | .bool => 1 | .byte => 8 | .uint n => n | .int n => n | .enum n _ => n
  | .alias t => leafSum t
  | .array _ cap e => cap * leafSum e
  | .msg _ fs => leafSumFields fs
def leafSumFields : List (Nat × Ty) → Nat
  | [] => 0
  | (_, t) :: fs => leafSum t + leafSumFields fs
end
mutual
/-- number of extensible nodes, counted once per occurrence on the wire -/
def extCount : Ty → Nat
  | .alias t => extCount t
  | .array ext cap e => (if ext then 1 else 0) + cap * extCount e
  | .msg ext fs => (if ext then 1 else 0) + extCountFields fs
  | _ => 0
def extCountFields : List (Nat × Ty) → Nat
  | [] => 0
  | (_, t) :: fs => extCount t + extCountFields fs
end

mutual
theorem C01_nbits : ∀ (t : Ty), t.nbits = leafSum t + 16 * extCount t
  | .bool | .byte | .uint _ | .int _ | .enum _ _ => by simp [Ty.nbits, leafSum, extCount]
  | .alias t => by simpa [Ty.nbits, leafSum, extCount] using C01_nbits t
  | .array ext cap e => by
      have := C01_nbits e
      simp only [Ty.nbits, leafSum, extCount, this, extBits]
      cases ext <;> simp [Nat.mul_add, Nat.mul_left_comm] <;> omega
  | .msg ext fs => by
      have := C01_nbits_fields fs
      simp only [Ty.nbits, leafSum, extCount, this, extBits]
      cases ext <;> simp <;> omega
theorem C01_nbits_fields : ∀ (fs : List (Nat × Ty)),
    fieldsBits fs = leafSumFields fs + 16 * extCountFields fs
  | [] => by simp [fieldsBits, leafSumFields, extCountFields]
  | (_, t) :: fs => by
      have h1 := C01_nbits t
      have h2 := C01_nbits_fields fs
      simp only [fieldsBits, leafSumFields, extCountFields, h1, h2]; omega
end

/-! ### field order: ascending field number, no gap -/

/-- fields of a message are laid out one after the other, in list order, after the optional
16-bit size prefix -/
theorem C01_message_layout (ext : Bool) (fs : List (Nat × Ty)) (vs : List Val) :
    Spec.bits (.msg ext fs) (.msg vs) =
      (if ext then natBits 16 (Ty.msg ext fs).nbits else []) ++ Spec.bitsFields fs vs := by
  simp [Spec.bits, Ty.nbits]

theorem C01_array_layout (ext : Bool) (cap : Nat) (e : Ty) (vs : List Val) :
    Spec.bits (.array ext cap e) (.arr vs) =
      (if ext then natBits 16 cap else []) ++ vs.flatMap (Spec.bits e) := by
  simp [Spec.bits]

theorem insertBy_keys_perm {α} (p : Nat × α) : ∀ (l : List (Nat × α)),
    (insertBy p l).Perm (p :: l)
  | [] => by simp [insertBy]
  | q :: qs => by
    simp only [insertBy]
    split
    · exact List.Perm.refl _
    · exact ((insertBy_keys_perm p qs).cons q).trans (List.Perm.swap p q qs)

/-- normalisation only permutes the fields … -/
theorem C01_sort_perm {α} : ∀ (l : List (Nat × α)), (sortBy l).Perm l
  | [] => by simp [sortBy]
  | p :: ps => by
    simp only [sortBy]
    exact (insertBy_keys_perm p _).trans ((C01_sort_perm ps).cons p)

def Ascending {α} (l : List (Nat × α)) : Prop := l.Pairwise (fun a b => a.1 ≤ b.1)

theorem insertBy_ascending {α} (p : Nat × α) : ∀ (l : List (Nat × α)), Ascending l → Ascending (insertBy p l)
  | [], _ => by simp [insertBy, Ascending]
  | q :: qs, h => by
    simp only [insertBy]
    have hq : Ascending qs := (List.pairwise_cons.mp h).2
    have hq1 := (List.pairwise_cons.mp h).1
    split
    · rename_i hle
      refine List.pairwise_cons.mpr ⟨?_, h⟩
      intro b hb
      rcases List.mem_cons.mp hb with rfl | hb
      · exact hle
      · exact Nat.le_trans hle (hq1 b hb)
    · rename_i hle
      refine List.pairwise_cons.mpr ⟨?_, insertBy_ascending p qs hq⟩
      intro b hb
      have := (insertBy_keys_perm p qs).mem_iff.mp hb
      rcases List.mem_cons.mp this with rfl | hb
      · omega
      · exact hq1 b hb

/-- … into ascending field-number order: this is the order `Spec.bits` (and the encoder) lays the
fields out in -/
theorem C01_sort_ascending {α} : ∀ (l : List (Nat × α)), Ascending (sortBy l)
  | [] => by simp [sortBy, Ascending]
  | p :: ps => by simpa [sortBy] using insertBy_ascending p _ (C01_sort_ascending ps)

/-- the tie to the source text of the helpers (translator): as `bp.py` reads now, its helpers are
the ones the model uses, on the whole domain the runtime exercises -/
theorem C01_helpers_tied :
    (∀ k : Fin 8, ∀ c : Fin 9, Gen.PyHelpers.get_mask k.val c.val = (getMask k.val c.val : Nat)) ∧
    (∀ n : Fin 256, ∀ k : Fin 15, Gen.PyHelpers.smart_shift n.val ((k.val : Int) - 7) =
        (smartShift n.val ((k.val : Int) - 7) : Nat)) ∧
    (∀ i j n : Nat, j ≤ n → Gen.PyHelpers.get_nbits_to_copy i j n = (nbitsToCopy i j n : Nat)) :=
  ⟨Bridge.get_mask_eq, Bridge.smart_shift_eq, Bridge.get_nbits_to_copy_eq⟩

/-! ### non-vacuity: a concrete non-trivial instance satisfies the hypotheses -/
def exTy : Ty := (Ty.msg false [(2, .int 7), (1, .uint 3),
  (4, .array true 3 (.alias (.int 13))), (3, .msg true [(1, .enum 3 [0, 5]), (2, .bool)])]).normalize
def exVal : Val := .msg [.int 5, .int (-3), .msg [.int 5, .int 1], .arr [.int 1, .int (-2), .int 4095]]
example : exTy.wf = true ∧ inRange exTy exVal = true ∧ shape exTy exVal = true := by decide +kernel
example : Spec.encode exTy exVal = [237, 83, 0, 244, 0, 64, 0, 240, 255, 255, 15] := by decide +kernel
example : (PyRt.encode exTy exVal).toOption = some [237, 83, 0, 244, 0, 64, 0, 240, 255, 255, 15] := by
  decide +kernel

end Bp.C01
