import BpModel.Model.Cli
import BpModel.Model.Memo
/-!
# C18 — compilation is deterministic

A Lean function is deterministic by construction, so the statement names what could make the real
compiler depend on history and proves the model does not: memoisation (`cache_if_frozen`, `@cache`)
is transparent — for every sequence of queries, a memoised query returns what the unmemoised
function returns, provided entries are only stored for frozen nodes (whose value no longer
changes); and the generated files do not depend on the lint flag.  Hash randomisation, `id()`
reuse, dict implementation and process-level state are runtime effects no model can exhibit; they
are only executed by the correspondence check (environment grid), so the claim is partial there.
-/
namespace Bp.C18
open Bp

/-- invariant: every stored entry is the function's value -/
def Memo.Ok {K V} (m : Memo K V) (f : K → V) : Prop := ∀ kv ∈ m.table, kv.2 = f kv.1

theorem get_ok {K V} [DecidableEq K] (m : Memo K V) (f : K → V) (frozen : K → Bool) (k : K) (h : m.Ok f) :
    (m.get f frozen k).1 = f k ∧ (m.get f frozen k).2.Ok f := by
  unfold Memo.get
  cases hf : m.table.find? (·.1 = k) with
  | some kv =>
    obtain ⟨k', v⟩ := kv
    have hm := List.mem_of_find?_eq_some hf
    have hk : k' = k := by simpa using List.find?_some hf
    exact ⟨by rw [← hk]; exact h _ hm, h⟩
  | none =>
    by_cases hz : frozen k = true
    · simp only [hz, if_true]
      refine ⟨by simp, ?_⟩
      intro kv hkv
      rcases List.mem_cons.mp hkv with rfl | hkv
      · rfl
      · exact h kv hkv
    · simp only [hz, Bool.false_eq_true, if_false]
      exact ⟨by simp, h⟩

/-- **memoisation is transparent over any history**: after any sequence of queries every further
query returns the unmemoised value -/
theorem C18_cache_transparent {K V} [DecidableEq K] (f : K → V) (frozen : K → Bool) :
    ∀ (history : List K) (m : Memo K V), m.Ok f →
      let m' := history.foldl (fun acc k => (acc.get f frozen k).2) m
      m'.Ok f ∧ ∀ k, (m'.get f frozen k).1 = f k := by
  intro history
  induction history with
  | nil => intro m h; exact ⟨h, fun k => (get_ok m f frozen k h).1⟩
  | cons k ks ih =>
    intro m h
    exact ih _ (get_ok m f frozen k h).2

/-- earlier compilations (any earlier state of the table that satisfies the invariant) cannot change
a result -/
theorem C18_prior_runs {K V} [DecidableEq K] (f : K → V) (frozen : K → Bool) (m : Memo K V) (h : m.Ok f) (k : K) :
    (m.get f frozen k).1 = (({} : Memo K V).get f frozen k).1 := by
  rw [(get_ok m f frozen k h).1, (get_ok {} f frozen k (by intro kv hkv; simp at hkv)).1]

/-- the generated files do not depend on whether linting is enabled (outside check-only mode) -/
theorem C18_lint_indep (w : Cli.World) (o : Cli.Opts) (hc : o.check = false) :
    Cli.main w { o with quiet := true } = Cli.main w { o with quiet := false } := by
  simp [Cli.main, Cli.parseFails, hc]

end Bp.C18
