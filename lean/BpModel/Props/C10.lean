import BpModel.Model.Emit
/-!
# C10 — every accepted schema yields code the target toolchains accept

What a theorem can carry is the *declaration discipline* of the output, not gcc's verdict.
`emit` models the order in which `Scope.filter(recursive=True, bound=…)` lists definitions and the
renderers emit them: children first (a definition nested in a message is emitted before that
message), siblings in declaration order.  Proved: every definition is emitted exactly once;
every definition nested in `d` is emitted before `d`; everything belonging to an earlier sibling is
emitted before everything belonging to a later one.  Together with C08/C11 (a use can only refer
to a definition that closed before it: an earlier sibling in an enclosing scope, something nested
in one, or something nested in the using message itself) this is declared-before-use.
The toolchains themselves (gcc, g++ with sizeof/offsetof static_asserts, Python import +
instantiate, static Go discipline) are run by the correspondence check on every generated program;
they validate that this discipline predicts acceptance — they are not the proof.  Known deviations
of the unchanged code are listed in known_findings.json (C helper-name collision, unused Go import,
include name, empty struct size, empty enum, Python vocabulary, Go transitive qualifier); the
nested-import qualification defect was repaired by a `fix:` commit.
-/
namespace Bp.C10

mutual
/-- every definition is emitted exactly once: the emission is a permutation of the declarations -/
theorem C10_emitted_once : ∀ (d : D), (emit d).Perm (ids d)
  | .mk id cs => by
    simp only [emit, ids]
    exact (List.perm_append_comm.trans (List.Perm.cons id (C10_emitted_once_all cs)))
theorem C10_emitted_once_all : ∀ (ds : List D), (emitAll ds).Perm (idsAll ds)
  | [] => by simp [emitAll, idsAll]
  | d :: ds => by
    simp only [emitAll, idsAll]
    exact List.Perm.append (C10_emitted_once d) (C10_emitted_once_all ds)
end

/-- no two generated declarations share a name when the definitions' (flattened) names are distinct -/
theorem C10_no_duplicate (d : D) (h : (ids d).Nodup) : (emit d).Nodup :=
  (C10_emitted_once d).nodup_iff.mpr h

/-- children first: everything nested in `d` is emitted before `d` itself -/
theorem C10_children_first (id : Nat) (cs : List D) :
    ∃ before, emit (.mk id cs) = before ++ [id] ∧ before.Perm (idsAll cs) :=
  ⟨emitAll cs, rfl, C10_emitted_once_all cs⟩

/-- siblings in declaration order: everything of an earlier sibling comes before everything of a
later one -/
theorem C10_sibling_order (a : D) (rest : List D) :
    emitAll (a :: rest) = emit a ++ emitAll rest := rfl

/-- hence a definition nested anywhere inside an EARLIER sibling `a` is emitted before any
definition of a later sibling `b` (and before the enclosing definition) -/
theorem C10_earlier_sibling_before (a b : D) (rest : List D) (x y : Nat) (hx : x ∈ emit a) (hy : y ∈ emit b) :
    ∃ l1 l2 l3, emitAll (a :: b :: rest) = l1 ++ x :: l2 ++ y :: l3 := by
  obtain ⟨a1, a2, ha⟩ := List.append_of_mem hx
  obtain ⟨b1, b2, hb⟩ := List.append_of_mem hy
  refine ⟨a1, a2 ++ b1, b2 ++ emitAll rest, ?_⟩
  simp [emitAll, ha, hb, List.append_assoc]

end Bp.C10
