import BpModel.Proofs.CDecTree
import BpModel.Proofs.BridgeFmt
/-!
# C03 — C standard mode writes/reads the same bytes as the specification and Python

Host = little-endian here (`be = false`); the big-endian statements are C06.  Documented usage
is a hypothesis: zero-initialised output buffer (`unsigned char s[N] = {0}`) and zero-initialised
struct (`struct X x = {0}`) — the copier's partial-byte paths OR into them.
Outside the model: the C *compiler* (optimisation levels, translation-unit layout acting on the
type-punned word accesses); that axis is executed by the check as validation only.
-/
namespace Bp.C03
open Bp

/-- `Encode<Msg>` writes byte for byte the specified buffer (never leaving it) -/
theorem C03_c_encode (t : Ty) (v : Val) (hwf : t.wf = true) (hv : inRange t v = true) :
    CRt.encode false t v = .ok (Spec.encode t v) :=
  CRt.cencode_eq_spec false t v hwf (PyRt.shape_of_inRange t v hv)

/-- `Decode<Msg>` into a zeroed struct reconstructs exactly the field values (sign-extended for
signed widths: the cells hold the values' integers) -/
theorem C03_c_decode (t : Ty) (v : Val) (hwf : t.wf = true) (hv : inRange t v = true) :
    CRt.decode false t (Spec.encode t v) = .ok v := by
  have := CRt.c_dec_evo false (Evo.refl t hwf) v hwf hwf hv
  rwa [proj_self t v (PyRt.shape_of_inRange t v hv)] at this

/-- C and Python peers interoperate in both directions -/
theorem C03_interop (t : Ty) (v : Val) (hwf : t.wf = true) (hz : enumZero t = true) (hv : inRange t v = true) :
    CRt.encode false t v = PyRt.encode t v ∧
    (∀ bytes, PyRt.encode t v = .ok bytes → CRt.decode false t bytes = .ok v) ∧
    (∀ bytes, CRt.encode false t v = .ok bytes → PyRt.decode t bytes (PyRt.fresh t) = .ok v) := by
  have hs := PyRt.shape_of_inRange t v hv
  refine ⟨by rw [C03_c_encode t v hwf hv, PyRt.encode_eq_spec t v hs], ?_, ?_⟩
  · intro bytes hb
    rw [PyRt.encode_eq_spec t v hs] at hb
    injection hb with hb
    rw [← hb]; exact C03_c_decode t v hwf hv
  · intro bytes hb
    rw [C03_c_encode t v hwf hv] at hb
    injection hb with hb
    rw [← hb]
    have := py_dec_evo (Evo.refl t hwf) v hwf hz hwf hv
    rwa [proj_self t v hs] at this

/-- the generic bit copier, every path (32/16/8-bit assign, sub-byte OR at `di = 0`, general OR):
bit-exact for every `n`, `di`, `si`; writes/reads only bytes that contain a copied/read bit -/
theorem C03_copier (n D S di si : Nat) (hz : ∀ p, di ≤ p → D.testBit p = false) :
    (CRt.copyBits false n D S di si).whi ≤ (di + n + 7) / 8 ∧
    (CRt.copyBits false n D S di si).rhi ≤ (si + n + 7) / 8 ∧
    ∀ p, (CRt.copyBits false n D S di si).D.testBit p =
      (D.testBit p || (decide (di ≤ p) && decide (p < di + n) && S.testBit (si + (p - di)))) :=
  CRt.copyBits_spec false n D S di si hz

/-- the array batch path writes what the per-element loop writes -/
theorem C03_batch_eq_loop (n : Nat) (hstd : n = 8 ∨ n = 16 ∨ n = 32 ∨ n = 64) (vs : List Val) :
    PyRt.Writes (CRt.encBatch n vs) (vs.flatMap fun v => leafBits n (CRt.Val.toInt v)) :=
  CRt.writes_batch n hstd vs

/-- sign handling for widths other than 8/16/32/64 -/
theorem C03_sign (size n u : Nat) (hn1 : 1 ≤ n) (hn : n ≤ 8 * size) (hu : u < 2^n)
    (hstd : (n = 8 ∨ n = 16 ∨ n = 32 ∨ n = 64) → n = 8 * size) :
    sgn (CRt.signFix size n u) (8 * size) = sgn u n := CRt.sgn_signFix size n u hn1 hn hu hstd

/-- the translator tie: integer storage type = smallest of 8/16/32/64 bits covering the width, as
`formatter.py` reads now -/
theorem C03_storage_tied : ∀ n : Fin 65, 1 ≤ n.val →
    Gen.FmtHelpers.get_nbits_of_integer (Gen.FmtHelpers.type_nbytes n.val) = (storageBits n.val : Nat) ∧
    storageBits n.val = 8 * CRt.storageSize n.val := Bridge.get_nbits_of_integer_eq

/-! ### non-vacuity -/
def exTy : Ty := (Ty.msg false [(2, .int 7), (1, .uint 3), (4, .array true 3 (.alias (.int 16))),
  (3, .msg true [(1, .enum 12 [0, 3000]), (2, .bool)]), (9, .array false 5 (.uint 32)), (7, .int 61)]).normalize
def exVal : Val := .msg [.int 5, .int (-3), .msg [.int 3000, .int 1], .arr [.int 1, .int (-2), .int 4095],
  .int (-1152921504606846976), .arr [.int 1, .int 4294967295, .int 0, .int 77, .int 65536]]
example : exTy.wf = true ∧ enumZero exTy = true ∧ inRange exTy exVal = true := by decide +kernel
example : PyRt.okIs (CRt.decode false exTy (Spec.encode exTy exVal)) exVal = true := by decide +kernel

end Bp.C03
