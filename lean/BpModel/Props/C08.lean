import BpModel.Model.Parse
import BpModel.Model.Front
import BpModel.Proofs.BridgeTables
/-!
# C08 — a schema is accepted iff it satisfies the documented constraints

`Front.checkProgram` is the executable reference of the documented rules over the abstract surface
syntax (widths 1..64, capacities 1..65535, field numbers 1..255 unique, enum values unique and
representable, names unique per scope — one namespace for fields, nested definitions, constants,
aliases, imports and options —, message ≤ 65535 bits and ≤ max_bytes, aliases only of unnamed types,
one-dimensional arrays, scope placement, known and well-typed options, references declared earlier
and of the right kind, imports neither cyclic nor duplicated) with the rule, file and line of the
first violation.  **What is proved** is about this reference: acceptance implies well-formedness of
every elaborated message type (the hypothesis of C01–C07), the per-rule boundary statements, and
the tie of the numeric limits to the validators' source text.  **The "iff" against the real
compiler is established by correspondence** (every generated valid program and single-violation
mutant must get the same verdict, rule family, file and line from `bitproto.parser.parse` and from
this reference).  The text level is modelled as well (`Lex.lex → Parse.parseText`, tied to PLY's behaviour by the
text-level correspondence): `C08_text_accept_wf` carries the well-formedness statement to source TEXTS.
-/
namespace Bp.C08
open Bp Front

/-- an accepted program's message types are exactly the well-formed types the wire theorems need -/
theorem C08_accept_wf (files : List File) (main : String) (trad : Bool) (e : Ent)
    (h : checkProgram files main trad = .ok e) : ∀ t ∈ msgTys e, t.wf = true := by
  unfold checkProgram at h
  split at h
  · simp at h
  · rename_i e' _
    split at h
    · rename_i hall
      injection h with h
      subst h
      intro t ht
      exact List.all_eq_true.mp hall t ht
    · simp at h

/-- integer widths are accepted exactly for 1..64 -/
theorem C08_uint_width (c : Ctx) (line n : Nat) :
    (∃ t, elabTy c line (.uint n) = .ok t) ↔ (1 ≤ n ∧ n ≤ 64) := by
  simp only [elabTy]
  by_cases h : 1 ≤ n ∧ n ≤ 64
  · simp [h]
  · simp [h, err]
theorem C08_int_width (c : Ctx) (line n : Nat) :
    (∃ t, elabTy c line (.int n) = .ok t) ↔ (1 ≤ n ∧ n ≤ 64) := by
  simp only [elabTy]
  by_cases h : 1 ≤ n ∧ n ≤ 64
  · simp [h]
  · simp [h, err]

/-- literal array capacities of a base-typed array are accepted exactly for 1..65535 -/
theorem C08_array_cap (c : Ctx) (line n : Nat) :
    (∃ t, elabTy c line (.array .bool (.lit n) false) = .ok t) ↔ (1 ≤ n ∧ n ≤ 65535) := by
  by_cases h : 1 ≤ n ∧ n ≤ 65535
  · simp [elabTy, evalCap, h, bind, Except.bind]
  · simp [elabTy, evalCap, h, err, bind, Except.bind]

/-- the translator tie: the numeric limits as they stand in `_ast.py` now -/
theorem C08_limits_tied : Gen.Tables.int_nbits_max = 64 ∧ Gen.Tables.array_cap_bound = 65536 ∧
    Gen.Tables.field_number_bound = 256 ∧ Gen.Tables.message_nbits_max = 65535 := Bridge.limits_eq

/-! ### boundary pairs, evaluated: 65535 bits accepted, 65536 rejected — with and without the
16-bit prefix; field numbers 255/256; duplicate number -/
def big (ext : Bool) (last : Nat) : List File :=
  [{ name := "m", proto := "m", items := [.msg 3 "Huge" ext
      [.field 4 "a" 1 (.array (.uint 64) (.lit 1023) false), .field 5 "b" 2 (.uint last)]] }]
def verdict (fs : List File) : String :=
  match checkProgram fs "m" false with
  | .ok _ => "accept"
  | .error d => d.rule
theorem C08_size_boundaries :
    verdict (big false 63) = "accept" ∧ verdict (big false 64) = "message-size-overflow" ∧
    verdict (big true 47) = "accept" ∧ verdict (big true 48) = "message-size-overflow" := by
  decide +kernel
def numbered (a b : Nat) : List File :=
  [{ name := "m", proto := "m", items := [.msg 3 "M" false [.field 4 "x" a .bool, .field 5 "y" b .bool]] }]
theorem C08_field_number_boundaries :
    verdict (numbered 1 255) = "accept" ∧ verdict (numbered 1 256) = "invalid-field-number" ∧
    verdict (numbered 0 2) = "invalid-field-number" ∧ verdict (numbered 7 7) = "duplicate-field-number" := by
  decide +kernel

/-! ### the text-level pipeline (`Lex.lex → Parse.parseText → checkProgram`), evaluated on boundary texts.
These are evaluations (tests of the model by the kernel), not unbounded claims; the unbounded tie of
this pipeline to the real compiler is the text-level correspondence (`tools/props_text.py`). -/
theorem C08_text_examples :
    Parse.textVerdict "proto a\nmessage M { uint3 x = 1 }\n" = "accept" ∧
    Parse.textVerdict "proto a\nmessage M {\n  uint65 x = 1\n}\n" = "invalid-uint-width@3" ∧
    Parse.textVerdict "proto a\nmessage M {\n  uint3 x = 1 // c" = "syntax@0" ∧              -- a comment needs its newline
    Parse.textVerdict "proto a\nmessage M\n{ }\n" = "syntax@2" ∧                             -- a header cannot span lines
    Parse.textVerdict "proto a\nmessage M { uint3 x = 0x1 }\n" = "syntax@2" ∧                 -- field numbers are decimal
    Parse.textVerdict "proto a\nconst A = 2 * (3 + 4)\nmessage M { byte[A] b = 255 }\n" = "accept" ∧
    Parse.textVerdict "proto a\nconst A = 1 / 0\n" = "division-by-zero@2" ∧
    Parse.textVerdict "proto a\nenum E : uint2 { A = 0; B = 4 }\n" = "enum-value-overflow@2" ∧
    Parse.textVerdict "message M { }\n" = "proto-name-undefined@0" ∧
    Parse.textVerdict "proto a\nmessage M { bool type = 1 }\n" = "accept" := by
  refine ⟨?_, ?_, ?_, ?_, ?_, ?_, ?_, ?_, ?_, ?_⟩ <;> decide +kernel

/-- the order of `push_member`: a statement whose name is already taken in its scope is a duplicate definition, whether or
    not the scope would also have refused that kind of member -/
theorem C08_duplicate_before_placement (c : Ctx) (line : Nat) (st : St) (name : String) (e : Ent) (refuse : Option String)
    (h : (lookup st.members name).isSome = true) :
    pushIf c line st name e refuse = err c "duplicate-definition" line := by
  unfold pushIf; simp [h]

/-- … and a free name in a scope that refuses the member is reported with the scope's rule -/
theorem C08_placement_when_free (c : Ctx) (line : Nat) (st : St) (name : String) (e : Ent) (r : String)
    (h : (lookup st.members name).isSome = false) :
    pushIf c line st name e (some r) = err c r line := by
  unfold pushIf; simp [h]

/-- the same order on texts (kernel evaluations; the compiler gives the same three answers) -/
theorem C08_text_examples_order :
    Parse.textVerdict "proto a\nmessage M {\n  message D { }\n  type D = uint3\n}\n" = "duplicate-definition@4" ∧
    Parse.textVerdict "proto a\nmessage M {\n  type D = uint3\n}\n" = "alias-in-message@3" ∧
    Parse.textVerdict "proto a\nenum E : uint3 {\n  A = 0\n  option A = 1\n}\n" = "duplicate-definition@4" := by
  refine ⟨?_, ?_, ?_⟩ <;> decide +kernel

/-- a verdict that names a rule is never the word `accept` (every such verdict contains `@`) -/
theorem verdict_ne_accept (r l : String) : r ++ "@" ++ l ≠ "accept" := by
  intro h
  have h2 : '@' ∈ (r ++ "@" ++ l).toList := by simp [String.toList_append]
  rw [h] at h2
  revert h2
  decide

/-- the text-level statement: a source text the pipeline accepts elaborates to an entity whose message types are all
    well-formed (widths 1..64, capacities 1..65535, field numbers 1..255 unique and ascending, at most 65535 bits) — for
    EVERY text, whatever its options say (a satisfied `max_bytes` does not lift the 65535-bit limit) -/
theorem C08_text_accept_wf (text : String) (h : Parse.textVerdict text = "accept") :
    ∃ e, checkProgram [{ name := "m", proto := (Parse.parseText text.toList).proto,
                          items := (Parse.parseText text.toList).items }] "m" false = .ok e ∧
      ∀ t ∈ msgTys e, t.wf = true := by
  unfold Parse.textVerdict at h
  simp only at h
  split at h
  · rename_i e he
    exact ⟨e, he, C08_accept_wf _ _ _ e he⟩
  · exact absurd h (verdict_ne_accept _ _)

end Bp.C08
