import BpModel.Model.Front
/-!
# C11 — names resolve to the innermost visible earlier definition

`Front.resolve` is the declarative reading: the scopes enclosing the use, innermost first; in each
scope only the members pushed so far (definitions are pushed when they *close*, so exactly the
definitions that textually precede the use — an enclosing message itself is not yet visible);
the whole dotted path must select a definition inside one scope before the search moves outward;
dotted names descend into messages, enums and imported files (under the file's own name or its
`as` name).  The parse-time algorithm of the real compiler is tied to this by correspondence
(three-way agreement of the elaborated types on generated shadowing programs).
-/
namespace Bp.C11
open Bp Front

/-- the innermost enclosing scope in which the (whole dotted) name selects a definition wins -/
theorem C11_innermost (s : Scope) (outer : List Scope) (p : List String) (e : Ent)
    (h : lookupPath s p = some e) : resolve (s :: outer) p = some e := by simp [resolve, h]

/-- … otherwise the search continues outward, to the file scope -/
theorem C11_outward (s : Scope) (outer : List Scope) (p : List String) (h : lookupPath s p = none) :
    resolve (s :: outer) p = resolve outer p := by simp [resolve, h]

theorem C11_no_scope (p : List String) : resolve [] p = none := rfl

/-- dotted names select definitions nested in messages, enums or imported files -/
theorem C11_dotted_msg (s : Scope) (n : String) (rest : List String) (id : Nat) (t : Ty) (mem : Scope)
    (h : lookup s n = some (.msg id t mem)) (hr : rest ≠ []) :
    lookupPath s (n :: rest) = lookupPath mem rest := by
  cases rest with
  | nil => exact absurd rfl hr
  | cons r rs => simp [lookupPath, h]
theorem C11_dotted_import (s : Scope) (n : String) (rest : List String) (f pn : String) (mem : Scope)
    (h : lookup s n = some (.proto f pn mem)) (hr : rest ≠ []) :
    lookupPath s (n :: rest) = lookupPath mem rest := by
  cases rest with
  | nil => exact absurd rfl hr
  | cons r rs => simp [lookupPath, h]

/-- only definitions that textually precede the use are visible: the context in which an item is
checked is built from the members pushed *before* it; nothing after it can influence it -/
theorem C11_earlier_only (imp) (c : Ctx) (k : Kind) (it : Item) (rest : List Item) (st : St) :
    checkItems imp c k (it :: rest) st =
      (checkItem imp { c with stack := st.members :: c.stack } k it st).bind (checkItems imp c k rest) := by
  simp [checkItems, bind, Except.bind]

/-- the resolved definition is the one whose width, members and encoding the field gets -/
theorem C11_elab_uses_resolved (c : Ctx) (line : Nat) (p : List String) :
    elabTy c line (.ref p) =
      match resolve c.stack p with
      | none => err c "undefined-type" line
      | some (.alias t) => .ok (.alias t)
      | some (.enum _ n vs _) => .ok (.enum n vs)
      | some (.msg _ t _) => .ok t
      | some _ => err c "not-a-type" line := by
  simp only [elabTy]
  cases resolve c.stack p with
  | none => rfl
  | some e => cases e <;> rfl

/-! ### non-vacuity: shadowing — `Kind` inside `Outer` resolves to `Outer.Kind` (5 bits) only after it
is declared; before that, to the file-level `Kind` (3 bits) -/
def shadow : List File :=
  [{ name := "m", proto := "m", items := [
      .enum 3 "Kind" 3 [(4, "KIND_Z", 0)] [],
      .msg 6 "Outer" false [
        .field 7 "before" 1 (.ref ["Kind"]),
        .enum 8 "Kind" 5 [(9, "KIND_IN_Z", 0)] [],
        .field 11 "after" 2 (.ref ["Kind"])]] }]
def widths : List Nat :=
  match checkProgram shadow "m" false with
  | .ok e => (msgTys e).flatMap fun t => match t with
      | .msg _ fs => fs.map (·.2.nbits)
      | _ => []
  | .error _ => []
example : widths = [3, 5] := by decide +kernel

end Bp.C11
