import BpModel.Proofs.Names
import BpModel.Proofs.Lex
import BpModel.Model.Cli
import BpModel.Model.Lint
/-!
# C20 — lint is advisory and diagnostics point at the right line

Lint rules as the linter states them: message / enum / alias names must be fixed points of
`pascal_case`; constant and enum-member names must satisfy `str.isupper()`; every enum needs a
member of value 0 (field names go through `snake_case`, which is not modelled).  Proved: a
style-conforming name produces no warning, a clearly violating one produces one; the zero-member
rule; lint never changes acceptance or output; check-only mode exits non-zero exactly when there is
an error or a warning.  Lines and columns of warnings, errors, definitions and references are tied
by the correspondence check (positions computed from the source text by the harness' own printer).
Known deviation of the unchanged code: names on the FIRST line of a file get a 0-based column while
other lines are 1-based (KF-col-first-line).
-/
namespace Bp.C20
open Bp Names

/-- style-conforming names produce no warning -/
theorem C20_clean_pascal (n : List Char) (h : IsPascal n) : warnsPascal n = false := by
  simp [warnsPascal, pascalCase_fixed h]
theorem C20_clean_upper (n : List Char) (h1 : n.any isUpperC = true) (h2 : n.any isLowerC = false) :
    warnsUpper n = false := by simp [warnsUpper, pyIsUpper, h1, h2]

/-- each name that clearly violates its convention produces a warning -/
theorem C20_warns_lower_first (c : Char) (rest : List Char) (hc : isLowerC c = true) (hnu : '_' ∉ (c :: rest)) :
    warnsPascal (c :: rest) = true := by
  simp [warnsPascal, pascalCase_ne_of_lower c rest hc hnu]
theorem C20_warns_underscore (n : List Char) (h : '_' ∈ n) : warnsPascal n = true := by
  simp [warnsPascal, pascalCase_ne_of_us n h]
theorem C20_warns_not_upper (n : List Char) (h : n.any isLowerC = true) : warnsUpper n = true := by
  simp [warnsUpper, pyIsUpper, h]

/-- each enum without a zero member produces a warning, and only those -/
theorem C20_enum_zero (values : List Nat) : warnsEnumNoZero values = true ↔ 0 ∉ values := by
  simp [warnsEnumNoZero]

/-- linting never changes acceptance or generated output -/
theorem C20_advisory (w : Cli.World) (o : Cli.Opts) (hc : o.check = false) :
    Cli.main w { o with quiet := true } = Cli.main w { o with quiet := false } := by
  simp [Cli.main, Cli.parseFails, hc]

/-- check-only mode exits non-zero exactly when there is an error or at least one warning -/
theorem C20_check_exit (w : Cli.World) (o : Cli.Opts) (hc : o.check = true) (hq : o.quiet = false) :
    (Cli.main w o).exit ≠ 0 ↔ (w.hasOtherError = true ∨ w.warnings > 0) := by
  simp only [Cli.main, Cli.parseFails, hc, hq, Bool.not_true, Bool.and_false, Bool.false_and, Bool.or_false,
    Bool.false_eq_true, if_false, if_true]
  by_cases he : w.hasOtherError = true
  · simp [he]
  · by_cases hw : w.warnings > 0
    · simp [he, hw]
    · simp [he, hw]

/-! ### lines: what the lexer model attaches to a token is the line it stands on -/

/-- every token carries 1 + the number of NEWLINE tokens before it -/
theorem C20_token_lines (text : List Char) : Lex.LinesOk 1 (Lex.lex text).1 :=
  Lex.lexAll_lines text.length false 1 text

/-- ... and NEWLINE tokens are exactly the line-feed characters: a comment stops before its line feed, a string
cannot contain one, no other token does -/
theorem C20_newlines_are_linefeeds (text : List Char) (h : (Lex.lex text).2 = none) :
    Lex.nlToks (Lex.lex text).1 = text.count '\n' :=
  Lex.lexAll_count text.length false 1 text (Nat.le_refl _) h

example : ((Lex.lex "proto a // c\nmessage M { }\n".toList).1.map (·.line)) = [1, 1, 1, 1, 2, 2, 2, 2, 2] := by decide +kernel

end Bp.C20
