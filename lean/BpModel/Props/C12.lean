import BpModel.Props.C01
/-!
# C12 — the wire format depends only on field numbers and resolved types

The wire layers work on `Ty` — resolved, name-free type trees — normalised by `Ty.normalize`
(fields sorted by number).  Renaming, moving definitions between scopes or files, comments,
whitespace, semicolons and replacing a literal by an equal-valued constant expression do not change
the elaborated `Ty` *by construction of that representation* (no name, position or trivia survives
elaboration); that the real compiler's elaboration has this property is established by the
correspondence check (rewrite pairs compiled by the real compiler, bytes compared).  What is proved
here are the rewrites that DO change the declared tree: field declaration order, alias
introduction / inlining, order-preserving renumbering — and closure under composition.
-/
namespace Bp.C12
open Bp C01

/-- two ascending lists with pairwise distinct keys that are permutations of each other are equal -/
theorem ascending_perm_unique {α} : ∀ (l1 l2 : List (Nat × α)), Ascending l1 → Ascending l2 →
    (l1.map (·.1)).Nodup → l1.Perm l2 → l1 = l2
  | [], l2, _, _, _, hp => by simpa using hp.symm.eq_nil
  | a :: l1, l2, h1, h2, hnd, hp => by
    cases l2 with
    | nil => exact absurd hp.eq_nil (by simp)
    | cons b l2 =>
      have ha1 := List.pairwise_cons.mp h1
      have hb2 := List.pairwise_cons.mp h2
      have hnd' : (l1.map (·.1)).Nodup ∧ a.1 ∉ l1.map (·.1) := by
        simp only [List.map_cons, List.nodup_cons] at hnd; exact ⟨hnd.2, hnd.1⟩
      -- the heads coincide: each is a minimum with a unique key
      have hab : a = b := by
        have hb_in : b ∈ a :: l1 := hp.symm.mem_iff.mp (by simp)
        have ha_in : a ∈ b :: l2 := hp.mem_iff.mp (by simp)
        rcases List.mem_cons.mp hb_in with hb | hb
        · exact hb.symm
        · rcases List.mem_cons.mp ha_in with ha | ha
          · exact ha
          · have le1 : a.1 ≤ b.1 := ha1.1 b hb
            have le2 : b.1 ≤ a.1 := hb2.1 a ha
            have hk : a.1 = b.1 := Nat.le_antisymm le1 le2
            exact absurd (List.mem_map.mpr ⟨b, hb, hk.symm⟩) hnd'.2
      subst hab
      have hp' : l1.Perm l2 := List.Perm.cons_inv hp
      rw [ascending_perm_unique l1 l2 ha1.2 hb2.2 hnd'.1 hp']

/-- **reordering field declarations while keeping their numbers** does not change the normalised
message: any two declaration orders (permutations) sort to the same field list -/
theorem C12_reorder_fields {α} (fs fs' : List (Nat × α)) (hp : fs.Perm fs') (hnd : (fs.map (·.1)).Nodup) :
    sortBy fs = sortBy fs' := by
  apply ascending_perm_unique _ _ (C01_sort_ascending fs) (C01_sort_ascending fs')
  · exact ((C01_sort_perm fs).map (·.1)).nodup_iff.mpr hnd
  · exact (C01_sort_perm fs).trans (hp.trans (C01_sort_perm fs').symm)

/-- **a type alias is transparent**: introducing or inlining one changes neither size nor bits -/
theorem C12_alias (t : Ty) (v : Val) : Spec.bits (.alias t) v = Spec.bits t v ∧ (Ty.alias t).nbits = t.nbits := by
  simp [Spec.bits, Ty.nbits]
theorem C12_alias_encode (t : Ty) (v : Val) : Spec.encode (.alias t) v = Spec.encode t v := by
  simp [Spec.encode, Spec.bits, Ty.nbits]

theorem insertBy_map {α} (f : Nat → Nat) (hf : ∀ a b, a ≤ b ↔ f a ≤ f b) (p : Nat × α) :
    ∀ (l : List (Nat × α)), insertBy (f p.1, p.2) (l.map fun q => (f q.1, q.2)) = (insertBy p l).map fun q => (f q.1, q.2)
  | [] => by simp [insertBy]
  | q :: qs => by
    simp only [List.map_cons, insertBy]
    by_cases h : p.1 ≤ q.1
    · have : f p.1 ≤ f q.1 := (hf _ _).mp h
      simp [h, this]
    · have : ¬ f p.1 ≤ f q.1 := fun h' => h ((hf _ _).mpr h')
      simp [h, this, insertBy_map f hf p qs]

/-- **order-preserving renumbering**: sorting commutes with a strictly monotone renumbering, so the
layout order (and hence the bits) is unchanged -/
theorem C12_renumber {α} (f : Nat → Nat) (hf : ∀ a b, a ≤ b ↔ f a ≤ f b) :
    ∀ (fs : List (Nat × α)), sortBy (fs.map fun q => (f q.1, q.2)) = (sortBy fs).map fun q => (f q.1, q.2)
  | [] => by simp [sortBy]
  | p :: ps => by
    simp only [List.map_cons, sortBy, C12_renumber f hf ps]
    exact insertBy_map f hf p (sortBy ps)

/-- field numbers themselves are not on the wire: the bits of a message depend on the field list
only through the order and the types -/
theorem C12_numbers_not_on_wire (ext : Bool) (fs : List (Nat × Ty)) (f : Nat → Nat) (vs : List Val) :
    Spec.bitsFields (fs.map fun q => (f q.1, q.2)) vs = Spec.bitsFields fs vs := by
  induction fs generalizing vs with
  | nil => simp [Spec.bitsFields]
  | cons q qs ih =>
    cases vs with
    | nil => simp [Spec.bitsFields]
    | cons v vs => simp [Spec.bitsFields, ih]

/-- closure under composition: every rewrite is an equation between encodings, and equations compose -/
theorem C12_compose {A : Type} (e0 e1 e2 : A) (h1 : e0 = e1) (h2 : e1 = e2) : e0 = e2 := h1.trans h2

/-! ### non-vacuity -/
example : sortBy [(7, "x"), (2, "y"), (200, "z")] = sortBy [(200, "z"), (7, "x"), (2, "y")] := by decide
example : sortBy ([(7, "x"), (2, "y"), (200, "z")].map fun q => (3 * q.1 + 1, q.2)) =
    (sortBy [(7, "x"), (2, "y"), (200, "z")]).map fun q => (3 * q.1 + 1, q.2) := by decide

end Bp.C12
