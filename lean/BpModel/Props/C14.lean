import BpModel.Proofs.CDecTree
import BpModel.Proofs.BridgePy
import BpModel.Proofs.BridgeFmt
/-!
# C14 — every width × bit-offset × signedness combination is bit-exact in every runtime

The finite projection of C01/C02/C03/C06, *instantiated* from the general theorems — so it holds
for all values of each kind, not only the basis values the property lists.  The frames contain no
enum and no extensible node.  The check additionally executes the complete finite space on the
real runtimes.
-/
namespace Bp.C14
open Bp

/-- the 130 scalar kinds: bool, byte, uint1..64, int1..64 -/
def kind (k : Fin 130) : Ty :=
  if k.val = 0 then .bool else if k.val = 1 then .byte
  else if k.val < 66 then .uint (k.val - 1) else .int (k.val - 65)

/-- positions: scalar, array element, aliased scalar, array of aliased elements -/
def place (pos : Fin 4) (t : Ty) : Ty :=
  match pos.val with
  | 0 => t
  | 1 => .array false 3 t
  | 2 => .alias t
  | _ => .array false 2 (.alias t)

/-- `message { uint<off> pad = 1; <kind in position> x = 2 }` (no pad field for offset 0) -/
def frame (off : Fin 8) (pos : Fin 4) (k : Fin 130) : Ty :=
  .msg false ((if off.val = 0 then [] else [(1, Ty.uint off.val)]) ++ [(2, place pos (kind k))])

/-- every frame is a well-formed schema without enums (the complete finite table) -/
theorem frames_wf : ∀ off pos k, (frame off pos k).wf = true ∧ enumZero (frame off pos k) = true := by
  decide +kernel

/-- both array code paths of the C runtime are covered by name: standard widths of integer kinds
take the batch path on the little-endian build, everything else (and the big-endian build) the
per-element loop -/
theorem batch_table : ∀ k : Fin 130,
    CRt.useBatch false (kind k) = (k.val = 1 || k.val = 9 || k.val = 17 || k.val = 33 || k.val = 65 ||
      k.val = 73 || k.val = 81 || k.val = 97 || k.val = 129) ∧ CRt.useBatch true (kind k) = false := by
  decide +kernel

/-- **C14**: for every kind, offset, position and every in-range value, every runtime's encode is the
specified bytes and decode returns the value (with correct sign) -/
theorem C14 (off : Fin 8) (pos : Fin 4) (k : Fin 130) (v : Val) (hv : inRange (frame off pos k) v = true) :
    PyRt.encode (frame off pos k) v = .ok (Spec.encode (frame off pos k) v) ∧
    PyRt.decode (frame off pos k) (Spec.encode (frame off pos k) v) (PyRt.fresh (frame off pos k)) = .ok v ∧
    (∀ be, CRt.encode be (frame off pos k) v = .ok (Spec.encode (frame off pos k) v)) ∧
    (∀ be, CRt.decode be (frame off pos k) (Spec.encode (frame off pos k) v) = .ok v) := by
  obtain ⟨hwf, hz⟩ := frames_wf off pos k
  have hs := PyRt.shape_of_inRange _ v hv
  refine ⟨PyRt.encode_eq_spec _ v hs, ?_, fun be => CRt.cencode_eq_spec be _ v hwf hs, fun be => ?_⟩
  · have := py_dec_evo (Evo.refl _ hwf) v hwf hz hwf hv
    rwa [proj_self _ v hs] at this
  · have := CRt.c_dec_evo be (Evo.refl _ hwf) v hwf hwf hv
    rwa [proj_self _ v hs] at this

/-- the translator tie: helper arithmetic, sign casts and storage widths as the sources read now -/
theorem C14_helpers_tied :
    (∀ k : Fin 8, ∀ c : Fin 9, Gen.PyHelpers.get_mask k.val c.val = (getMask k.val c.val : Nat)) ∧
    (∀ n : Fin 256, ∀ k : Fin 15, Gen.PyHelpers.smart_shift n.val ((k.val : Int) - 7) =
        (smartShift n.val ((k.val : Int) - 7) : Nat)) ∧
    (∀ i j n : Nat, j ≤ n → Gen.PyHelpers.get_nbits_to_copy i j n = (nbitsToCopy i j n : Nat)) ∧
    (∀ v, Gen.PyHelpers.int8 v = PyRt.intW 8 v) ∧ (∀ v, Gen.PyHelpers.int16 v = PyRt.intW 16 v) ∧
    (∀ v, Gen.PyHelpers.int32 v = PyRt.intW 32 v) ∧ (∀ v, Gen.PyHelpers.int64 v = PyRt.intW 64 v) ∧
    (∀ n : Fin 65, 1 ≤ n.val →
      Gen.FmtHelpers.get_nbits_of_integer (Gen.FmtHelpers.type_nbytes n.val) = (storageBits n.val : Nat) ∧
      storageBits n.val = 8 * CRt.storageSize n.val) :=
  ⟨Bridge.get_mask_eq, Bridge.smart_shift_eq, Bridge.get_nbits_to_copy_eq, Bridge.int8_eq, Bridge.int16_eq,
    Bridge.int32_eq, Bridge.int64_eq, Bridge.get_nbits_of_integer_eq⟩

/-! ### non-vacuity: int61 as array element at offset 5, minimum / −1 / single bit -/
example : inRange (frame 5 1 126) (.msg [.int 31, .arr [.int (-1152921504606846976), .int (-1), .int 1099511627776]]) = true := by
  decide +kernel

end Bp.C14
