import BpModel.Model.Cli
/-!
# C17 — -O and -F restrict what is generated without altering it
Decision logic of `_main.main` (`Cli.main`) and the filter as list algebra (`Cli.emitted`); the
substance — that the real CLI behaves like this model, that each kept function is textually
identical and that declarations are kept — is the correspondence check's pairwise comparison of
real invocations.
-/
namespace Bp.C17
open Bp Cli

theorem C17_refuse_ext (w : World) (o : Opts) (hO : o.optimize = true) (hc : o.check = false)
    (hx : w.hasExtensible = true) : (main w o).exit ≠ 0 ∧ (main w o).written = [] := by
  simp [main, parseFails, hO, hc, hx]

theorem C17_refuse_lang (w : World) (o : Opts) (l : String) (hl : o.lang = some l) (hO : o.optimize = true)
    (hc : o.check = false) (hs : w.supportsO l = false) : (main w o).exit ≠ 0 ∧ (main w o).written = [] := by
  unfold main
  by_cases hp : parseFails w o = true
  · simp [hp]
  · by_cases hk : w.knownLang l = true <;> simp [hp, hc, hl, hO, hs, hk]

theorem C17_refuse_F (w : World) (o : Opts) (hF : o.filter ≠ []) (hO : o.optimize = false) (hc : o.check = false) :
    (main w o).exit ≠ 0 ∧ (main w o).written = [] := by
  unfold main
  by_cases hp : parseFails w o = true
  · simp [hp]
  · cases hl : o.lang with
    | none => simp [hp, hc, hl]
    | some l => simp [hp, hc, hl, hO, hF]

/-- with `-F names` exactly the named messages get functions, each the same text, in the same order -/
theorem C17_filter {α} (name : α → String) (render : α → String) (names : List String) (hn : names ≠ []) (msgs : List α) :
    emitted name render names msgs = (msgs.filter fun m => names.contains (name m)).map render := by
  have : names.isEmpty = false := by cases names <;> simp_all
  simp [emitted, this]

/-- … a sublist of what is generated without `-F` -/
theorem C17_filter_sublist {α} (name : α → String) (render : α → String) (names : List String) (msgs : List α) :
    (emitted name render names msgs).Sublist (emitted name render [] msgs) := by
  simp only [emitted, List.isEmpty_nil, Bool.true_or]
  have : msgs.filter (fun _ => true) = msgs := by induction msgs <;> simp_all
  rw [this]
  exact List.Sublist.map _ List.filter_sublist

end Bp.C17
