import BpModel.Proofs.Expr
import BpModel.Proofs.Lit
import BpModel.Proofs.BridgeTables
/-!
# C13 — constants evaluate arithmetically and reach every target language intact

`Expr.parse`/`Expr.eval` model the constant-expression productions and actions of `parser.py`;
`Lit.*` the literal formatters and the literal syntax of C, Go and Python.  Division by zero and
string escapes were defects of the unchanged code (ZeroDivisionError escaping; quotes, backslashes
and newlines emitted verbatim); both were repaired by `fix:` commits and the model follows the
repaired code.  Outside the model: integers beyond what a target's literal syntax/type can hold.
-/
namespace Bp.C13
open Bp Expr Lit

/-- precedence, left associativity and grouping are exactly the ordinary ones: whatever tree is
printed with the usual minimal parentheses parses back to that tree -/
theorem C13_parse_print (e : E) : ∃ N, ∀ f, N ≤ f → parseExpr f 1 (pr 1 e) = some (e, []) :=
  parseExpr_print e

/-- evaluation is ordinary integer arithmetic -/
theorem C13_eval_lit (env) (n : Nat) : eval env (.num n) = .ok (n : Int) := rfl
theorem C13_eval_ref (env) (s : String) (v : Int) (h : env s = some v) : eval env (.ref s) = .ok v := by
  simp [eval, h]
theorem C13_eval_add (env) (l r : E) (a b : Int) (hl : eval env l = .ok a) (hr : eval env r = .ok b) :
    eval env (.bin .add l r) = .ok (a + b) := by simp [eval, hl, hr]
theorem C13_eval_sub (env) (l r : E) (a b : Int) (hl : eval env l = .ok a) (hr : eval env r = .ok b) :
    eval env (.bin .sub l r) = .ok (a - b) := by simp [eval, hl, hr]
theorem C13_eval_mul (env) (l r : E) (a b : Int) (hl : eval env l = .ok a) (hr : eval env r = .ok b) :
    eval env (.bin .mul l r) = .ok (a * b) := by simp [eval, hl, hr]
/-- `/` is integer (floor) division: `a = b·q + r` with `0 ≤ r < b` for a positive divisor -/
theorem C13_eval_div (env) (l r : E) (a b : Int) (hl : eval env l = .ok a) (hr : eval env r = .ok b) (hb : 0 < b) :
    ∃ q, eval env (.bin .div l r) = .ok q ∧ ∃ m, a = b * q + m ∧ 0 ≤ m ∧ m < b := by
  have hb0 : b ≠ 0 := by omega
  refine ⟨Int.fdiv a b, by simp [eval, hl, hr, hb0], Int.fmod a b, ?_, ?_, ?_⟩
  · exact (Int.mul_fdiv_add_fmod a b).symm
  · exact Int.fmod_nonneg_of_pos _ hb
  · exact Int.fmod_lt_of_pos _ hb
/-- division by zero is reported as a (parser) error, never an internal exception -/
theorem C13_eval_div_zero (env) (l r : E) (a : Int) (hl : eval env l = .ok a) (hr : eval env r = .ok 0) :
    eval env (.bin .div l r) = .error .divZero := by simp [eval, hl, hr]

/-- every integer / boolean / string constant is emitted as a literal that denotes exactly the
declared value, in all three languages -/
theorem C13_emit_int (z : Int) : denoteInt (intLit z) = some z := denoteInt_intLit z
theorem C13_emit_bool (l : Lang) (b : Bool) : denoteBool l (boolLit l b) = some b := denoteBool_boolLit l b
theorem C13_emit_str (s : List Char) : denoteStr (strLit s) = some s := denoteStr_strLit s

/-- the translator tie: escape table, precedence rows -/
theorem C13_tables_tied :
    (Gen.Tables.emit_escapes.all (fun p => Lit.escChar p.1 == p.2) = true ∧
      Gen.Tables.emit_escapes.map (·.1) = ['\\', '"', '\n', '\t', '\r']) ∧
    Gen.Tables.lexer_escapes = [('t', '\t'), ('r', '\r'), ('n', '\n'), ('\\', '\\'), ('\'', '\''), ('"', '"')] ∧
    Gen.Tables.precedence = [("left", ["PLUS", "MINUS"]), ("left", ["TIMES", "DIVIDE"])] :=
  ⟨Bridge.emit_escapes_eq, Bridge.lexer_escapes_eq, Bridge.precedence_eq.1⟩

/-! ### non-vacuity / examples (evaluated on token lists: `2 + 3 * (7 - 16) / 2`, `8 / 2 / 2 - 1 - 1`) -/
example : (parse [.num 2, .op .add, .num 3, .op .mul, .lp, .num 7, .op .sub, .num 16, .rp, .op .div, .num 2]).map
    (fun e => (eval (fun _ => none) e).toOption) = some (some (-12)) := by decide
example : (parse [.num 8, .op .div, .num 2, .op .div, .num 2, .op .sub, .num 1, .op .sub, .num 1]).map
    (fun e => (eval (fun _ => none) e).toOption) = some (some 0) := by decide
example : (parse [.num 1, .op .div, .lp, .num 2, .op .sub, .num 2, .rp]).map
    (fun e => (eval (fun _ => none) e).toOption) = some none := by decide

end Bp.C13
